(* C17 (termination half, engine WITH pure subtype constraints)
   "type inference ... terminates with a result or a declared error" for the
   engine model Infer/Engine.v on stores / programs that carry READ-ONLY subtype
   constraints   x <= A   x < A   (x a bare variable, A a base operator): class
   [progS] of Infer/SoundSub.v, invariants [Jv] (cells well-scoped, arity-correct,
   bounds proper), [allpure] (every constraint object is a subtype constraint
   against one base operator), [inv] (Infer/Inv.v: acyclic, in range).  These
   hold of every store reached by a progS program (C03_sub_final; ex_hyps).
   The model runs on fuel; "terminates" = an explicit fuel bound above which
   the answer is never [EFuel].  Proofs: Infer/TermSub.v.

   Shape of the bounds.  check_constraints hands EVERY pending constraint the
   same fuel (forM over the pending list, fulfill f c), and re-checking a pure
   constraint costs at most 4 units whatever its reference is resolved to
   (C17_term_sub_fulfill), so a whole re-check round costs 5 units INDEPENDENT
   of the number of pending constraints (C17_term_sub_cc; ex_cc: 3 pending, 5
   units suffice, 4 do not).  bind / above / below call one round each, nested
   one level deeper than in the constraint-free engine, hence
       bound(with pure constraints) = bound(constraint-free, Infer/TermP.v) + 4
   (C17_term_sub_shift_*: a fuel-shifted forward simulation with SoundSub's
   erased run).  The number of constraints enters only in TypeSchema.instance:
   Constraint.variables(indirect=True) (closure_f) spends one unit per term of
   every constraint already attached to the schematic variable, i.e.
   2 * (number of earlier constraints) + 3; this term is tight (ex_inst_tight).

   C17_term_sub_unify     fuel > unify_bound s a b + 4
   C17_term_sub_apply     fuel > apply_bound s f x + 4
   C17_term_sub_fix       fuel > xdepth s t + 6
   C17_term_sub_instance  fuel > inst_bound s sc
        = max (m + (|vars s| + s_n + #wildcards) * m + 6) (2 * #constraints),
          m = max 1 (deepest binding of s) (nesting of the schema body)
   C17_term_sub_prog      fuel >= prog_fuel prog
        = max (D * (N + 1) + 12) (2 * C + 1),  D = max 1 (deepest schema body),
          N = sum over the commands of the variables they can allocate
          (s_n + #wildcards for an instance, 2 for an application),
          C = largest number of constraints of a schema:
        the run of a progS program from the empty store ends with all commands
        executed or with one of the five declared typing errors - never EFuel,
        never an internal assertion (C17_engine_nocrash).

   Not covered: elimination constraints, subtype constraints with compound
   targets or references (their fulfilment unifies), CUnify / CFix commands. *)
From Coq Require Import List Arith Bool Lia.
Import ListNotations.
From TF Require Import Base.Hier Base.Ty Sub.SubSpec Infer.Store Infer.Engine Infer.Run
  Infer.Inv Infer.Sound Infer.FixLeast Infer.TermP Infer.SchedIndep Infer.SoundSub Infer.TermSub.

(* ---------- 1. one re-check: constant fuel ---------- *)

(* pureK H k: k_elim k = false /\ forall t, k_alts k = [t] -> exists a, t = O a [] /\ basic H a = true *)
Theorem C17_term_sub_fulfill : forall H n c s, pureK H (constr_of s c) -> 4 <= n ->
  forall s', fulfill H n c s <> MEr EFuel s'.
Proof. exact fulfill_nofuel. Qed.
Print Assumptions C17_term_sub_fulfill.

(* a whole round over the pending set of v: five units, whatever its size *)
Theorem C17_term_sub_cc : forall H n v s s', allpure H s -> 5 <= n ->
  check_constraints H n v s <> MEr EFuel s'.
Proof. exact cc_nofuel. Qed.
Print Assumptions C17_term_sub_cc.

(* ---------- 2. the fuel shift against the constraint-free run ---------- *)
(* s0: the same variable cells, no constraints (e.g. SoundSub.strip s) *)
Theorem C17_term_sub_shift_unify : forall H f sub skb skw a b s s0,
  vars s0 = vars s -> nocs s0 -> allpure H s -> length (csets s0) = length (csets s) ->
  (forall s0', unify H f sub skb skw a b s0 <> MEr EFuel s0') ->
  forall s', unify H (f + 4) sub skb skw a b s <> MEr EFuel s'.
Proof. exact shift_unify. Qed.
Print Assumptions C17_term_sub_shift_unify.

Theorem C17_term_sub_shift_fix : forall H f pl t s s0,
  vars s0 = vars s -> nocs s0 -> allpure H s -> length (csets s0) = length (csets s) ->
  (forall s0', fix_ty H f pl t s0 <> MEr EFuel s0') ->
  forall s', fix_ty H (f + 4) pl t s <> MEr EFuel s'.
Proof. exact shift_fix_ty. Qed.
Print Assumptions C17_term_sub_shift_fix.

Theorem C17_term_sub_shift_apply : forall H f x y fixb s s0,
  vars s0 = vars s -> nocs s0 -> allpure H s -> length (csets s0) = length (csets s) ->
  (forall s0', apply H f x y fixb s0 <> MEr EFuel s0') ->
  forall s', apply H (f + 4) x y fixb s <> MEr EFuel s'.
Proof. exact shift_apply. Qed.
Print Assumptions C17_term_sub_shift_apply.

(* ---------- 3. unify / apply / fix ---------- *)
Theorem C17_term_sub_unify : forall H, wf_hier H -> forall fuel a b s,
  Jv H s -> allpure H s -> inv s ->
  tg H (length (vars s)) a -> tg H (length (vars s)) b ->
  unify_bound s a b + 4 < fuel ->
  (exists s', unify H fuel true false false a b s = MOk tt s') \/
  (exists e s', unify H fuel true false false a b s = MEr e s' /\ e <> EFuel /\
                forall site, e <> ECrash site).
Proof. exact unify_term_sub. Qed.
Print Assumptions C17_term_sub_unify.

Theorem C17_term_sub_apply : forall H, wf_hier H -> forall fuel f x fixb s,
  Jv H s -> allpure H s -> inv s ->
  tg H (length (vars s)) f -> tg H (length (vars s)) x ->
  apply_bound s f x + 4 < fuel ->
  forall s', apply H fuel f x fixb s <> MEr EFuel s'.
Proof. exact apply_term_sub. Qed.
Print Assumptions C17_term_sub_apply.

Theorem C17_term_sub_fix : forall H, wf_hier H -> forall fuel pl t s,
  Jv H s -> allpure H s -> inv s -> tg H (length (vars s)) t ->
  xdepth s t + 6 < fuel ->
  forall s', fix_ty H fuel pl t s <> MEr EFuel s'.
Proof. exact fix_term_sub. Qed.
Print Assumptions C17_term_sub_fix.

(* ---------- 4. TypeSchema.instance with m pure constraints ---------- *)
(* styg: body well-scoped and arity-correct; psc n: SCSub (SVar i) (SOp a []) _ with i < n, a basic *)
Theorem C17_term_sub_instance : forall H, wf_hier H -> forall fuel sc s,
  Jv H s -> allpure H s -> inv s ->
  styg H (s_n sc) (s_body sc) -> Forall (psc H (s_n sc)) (s_constrs sc) ->
  inst_bound s sc < fuel ->
  forall s', instance H fuel sc s <> MEr EFuel s'.
Proof. exact instance_term_sub. Qed.
Print Assumptions C17_term_sub_instance.

Example inst_bound_def : forall s sc,
  inst_bound s sc =
    let m := Nat.max 1 (Nat.max (mdepth s) (sdepth (s_body sc))) in
    Nat.max (m + (length (vars s) + (s_n sc + wilds (s_body sc))) * m + 6) (2 * length (s_constrs sc)).
Proof. reflexivity. Qed.

(* ---------- 5. whole programs ---------- *)
Theorem C17_term_sub_prog : forall H, wf_hier H -> forall prog sc fuel,
  progS H 0 prog -> prog_fuel prog <= fuel ->
  match fst (fst (run_cmds H fuel prog 0 [] (empty_store sc))) with
  | None => True
  | Some (e, _) =>
      e = ESubtypeMismatch \/ e = ETypeMismatch \/ e = EFunApp \/ e = ERecursive \/
      e = EConstraintViolation
  end.
Proof. exact prog_term_sub. Qed.
Print Assumptions C17_term_sub_prog.

Example prog_fuel_def : forall prog,
  prog_fuel prog =
    Nat.max (Nat.max 1 (list_max (map cmd_depth prog)) * (list_sum (map cmd_vars prog) + 1) + 12)
            (2 * list_max (map cmd_cons prog) + 1).
Proof. reflexivity. Qed.
Example cmd_measures : forall sc f x b,
  (cmd_vars (CInst sc), cmd_depth (CInst sc), cmd_cons (CInst sc)) =
    (s_n sc + wilds (s_body sc), sdepth (s_body sc), length (s_constrs sc)) /\
  (cmd_vars (CApply f x b), cmd_depth (CApply f x b), cmd_cons (CApply f x b)) = (2, 0, 0).
Proof. intros. split; reflexivity. Qed.

(* ---------- non-vacuity ---------- *)
(* A = 5, B = 6 < A, F = 7 unary covariant *)
Definition exH := mk_hier [(6,5)] [(7,[true])].
Example exH_wf : wf_hier exH.
Proof.
  split.
  - intros o p. cbn. repeat (destruct o as [|o]; try discriminate; cbn); intros [= <-]; auto with arith.
  - intros o p. cbn. repeat (destruct o as [|o]; try discriminate; cbn); intros [= <-]; cbn; repeat split; discriminate.
  - split; reflexivity.
  - split; reflexivity.
  - reflexivity.
Qed.

Definition conc (t : sty) := mkSchema 0 t [].
(* f : x ** y ** (x * y)   with  x <= A, y < A, x <= Top : three constraints *)
Definition sig3 := mkSchema 2
  (SOp Function [SVar 0; SOp Function [SVar 1; SOp Product [SVar 0; SVar 1]]])
  [SCSub (SVar 0) (SOp 5 []) false; SCSub (SVar 1) (SOp 5 []) true; SCSub (SVar 0) (SOp 0 []) false].

Definition ex_prog := [CInst sig3; CInst (conc (SOp 6 [])); CApply 0 1 false; CApply 2 1 true].

Example ex_progS : progS exH 0 ex_prog.
Proof.
  cbn [progS ex_prog]. repeat split; try (constructor; auto with arith; fail).
  - constructor.
    + cbn [s_n s_body sig3]. repeat (constructor; cbn; auto with arith).
    + cbn [s_n s_constrs sig3]. repeat constructor; cbn; auto with arith.
  - constructor; [|constructor]. repeat (constructor; cbn; auto with arith).
Qed.

(* the bound is met (accepted), and fuel matters: 6 units are not enough *)
Example ex_prog_bound :
  prog_fuel ex_prog = 33 /\
  fst (fst (run_cmds exH 33 ex_prog 0 [] (empty_store []))) = None /\
  fst (fst (run_cmds exH 6 ex_prog 0 [] (empty_store []))) = Some (EFuel, 2).
Proof. split; [|split]; vm_compute; reflexivity. Qed.

(* the theorem applied *)
Example ex_prog_term : forall sc fuel, 33 <= fuel ->
  match fst (fst (run_cmds exH fuel ex_prog 0 [] (empty_store sc))) with
  | None => True
  | Some (e, _) => e <> EFuel
  end.
Proof.
  intros sc fuel L. pose proof (C17_term_sub_prog exH exH_wf ex_prog sc fuel ex_progS) as K.
  destruct (fst (fst (run_cmds exH fuel ex_prog 0 [] (empty_store sc)))) as [[e i]|]; [|exact I].
  destruct K as [->|[->|[->|[->| ->]]]]; [exact L|..]; discriminate.
Qed.

(* a rejected program: passing A for y violates y < A when fix resolves y; the
   answer at the bound is the declared error, not EFuel *)
Definition ex_prog_c := [CInst sig3; CInst (conc (SOp 6 [])); CApply 0 1 false;
                         CInst (conc (SOp 5 [])); CApply 2 3 true].
Example ex_prog_c_rejected :
  prog_fuel ex_prog_c = 33 /\
  fst (fst (run_cmds exH 33 ex_prog_c 0 [] (empty_store []))) = Some (EConstraintViolation, 4).
Proof. split; vm_compute; reflexivity. Qed.

(* a reachable store with pending constraints: after  f B  (x >= B; x <= A and
   y < A pending, x <= Top fulfilled and dropped by the re-check round) *)
Definition ex_pre := [CInst sig3; CInst (conc (SOp 6 [])); CApply 0 1 false].
Definition ex_run := Eval vm_compute in run_cmds exH 33 ex_pre 0 [] (empty_store []).
Definition ex_vals := snd (fst ex_run).
Definition ex_s := snd ex_run.

Example ex_pre_progS : progS exH 0 ex_pre.
Proof.
  cbn [progS ex_pre]. repeat split; try (constructor; auto with arith; fail).
  - constructor.
    + cbn [s_n s_body sig3]. repeat (constructor; cbn; auto with arith).
    + cbn [s_n s_constrs sig3]. repeat constructor; cbn; auto with arith.
  - constructor; [|constructor]. repeat (constructor; cbn; auto with arith).
Qed.

Example ex_hyps : Jv exH ex_s /\ allpure exH ex_s /\ inv ex_s /\
  Forall (tg exH (length (vars ex_s))) ex_vals /\
  csets ex_s = [[0]; [1]] /\ map k_done (constrs ex_s) = [false; false; true].
Proof.
  assert (R : run_cmds exH 33 ex_pre 0 [] (empty_store []) = (None, ex_vals, ex_s)) by (vm_compute; reflexivity).
  destruct (sub_final exH exH_wf 33 [] ex_pre ex_vals ex_s ex_pre_progS R) as (Iv & _ & Jvs & P & Fv).
  split; [exact Jvs|split; [exact P|split; [exact Iv|split; [exact Fv|split; vm_compute; reflexivity]]]].
Qed.

(* applying  y ** (x * y)  (value 2) to B (value 1) in that store, result fixed:
   the bound, success at the bound, and exhaustion with 6 units *)
Example ex_apply :
  apply_bound ex_s (val ex_vals 2) (val ex_vals 1) + 4 = 21 /\
  (exists r s', apply exH 22 (val ex_vals 2) (val ex_vals 1) true ex_s = MOk r s') /\
  (exists s', apply exH 6 (val ex_vals 2) (val ex_vals 1) true ex_s = MEr EFuel s').
Proof. split; [|split]; [vm_compute; reflexivity|eexists; eexists|eexists]; vm_compute; reflexivity. Qed.

Example ex_apply_term : forall fuel fixb, 21 < fuel ->
  forall s', apply exH fuel (val ex_vals 2) (val ex_vals 1) fixb ex_s <> MEr EFuel s'.
Proof.
  intros fuel fixb L. destruct ex_hyps as (Jvs & P & Iv & Fv & _).
  apply (C17_term_sub_apply exH exH_wf fuel _ _ fixb ex_s Jvs P Iv).
  - rewrite Forall_forall in Fv. apply Fv. vm_compute. auto.
  - rewrite Forall_forall in Fv. apply Fv. vm_compute. auto.
  - destruct ex_apply as (E & _). lia.
Qed.

(* unify in that store: x (variable 0, a pending constraint) against A *)
Example ex_unify :
  unify_bound ex_s (V 0) (O 5 []) + 4 = 14 /\
  (exists s', unify exH 15 true false false (V 0) (O 5 []) ex_s = MOk tt s') /\
  (exists s', unify exH 6 true false false (V 0) (O 5 []) ex_s = MEr EFuel s').
Proof. split; [|split]; [vm_compute; reflexivity|eexists|eexists]; vm_compute; reflexivity. Qed.

(* one re-check round over three pending constraints: 5 units suffice, 4 do not *)
Definition sigm (m : nat) := mkSchema 1 (SVar 0) (repeat (SCSub (SVar 0) (SOp 5 []) false) m).
Definition ex_s3 := Eval vm_compute in snd (run_cmds exH 20 [CInst (sigm 3)] 0 [] (empty_store [])).
Example ex_cc :
  cset_of ex_s3 (c_cs (cell_of ex_s3 0)) = [0; 1; 2] /\
  (exists s', check_constraints exH 5 0 ex_s3 = MOk tt s') /\
  (exists s', check_constraints exH 4 0 ex_s3 = MEr EFuel s').
Proof. split; [|split]; [vm_compute; reflexivity|eexists|eexists]; vm_compute; reflexivity. Qed.

(* the constraint term of inst_bound is tight: 6 constraints on one variable *)
Example ex_inst_tight :
  inst_bound (empty_store []) (sigm 6) = 12 /\
  (exists r s', instance exH 13 (sigm 6) (empty_store []) = MOk r s') /\
  (exists s', instance exH 12 (sigm 6) (empty_store []) = MEr EFuel s').
Proof. split; [|split]; [vm_compute; reflexivity|eexists; eexists|eexists]; vm_compute; reflexivity. Qed.

Example ex_inst_term : forall m fuel, inst_bound (empty_store []) (sigm m) < fuel ->
  forall s', instance exH fuel (sigm m) (empty_store []) <> MEr EFuel s'.
Proof.
  intros m fuel L. apply (C17_term_sub_instance exH exH_wf); auto.
  - apply (Jv_of_J exH (empty_store []) (empty_store []) (J_empty exH [])). reflexivity.
  - apply allpure_empty.
  - apply (inv_empty true).
  - cbn. constructor. auto with arith.
  - cbn [sigm s_n s_constrs]. clear L. induction m as [|m IH]; cbn [repeat]; constructor; auto.
    cbn. split; [auto with arith|reflexivity].
Qed.
