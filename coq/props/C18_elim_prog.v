(* C18 for the class progE, towards whole programs (Infer/SchedIndepElimP.v).

   (1) THE INVARIANT.  [GI H pend s] (C18_elim_prog_GI_unfold), the invariant of the
   stores in which the engine starts a re-check round:  JE, inv;  the
   alternatives of every elimination constraint pairwise equal-or-incomparable;
   every pending elimination constraint whose reference is an unbound variable w
   is ATTACHED to the set of w and is settled (re-checking it is a no-op) - or
   waits in [pend] for the round about to start - or has never been re-checked
   and lives only in the set of w, to which no other unbound variable points
   ([uq]: a constraint whose minimized alternatives contain duplicates stays
   unsettled until the first round on its set);  every fulfilled subtype
   constraint holds.

   Proved, for every well-formed hierarchy and ALL fuels (per-operation
   preservation, as C03_elim_K_ops does for Kp):
     C18_elim_prog_round_pre   GI, with the waiting constraints sitting in the set
                               of v and referring to variables of that set
                               ([share]), implies the hypothesis RoundPre of the
                               one-round theorem C18_elim_round: EVERY round that
                               starts from such a store is schedule-independent;
     C18_elim_prog_cc          a round re-establishes GI with nothing waiting;
     C18_elim_prog_bind_base / _above / _below
                               bind(v, base type), above(v, A), below(v, A): GI with
                               nothing waiting afterwards, or nothing happened but
                               wildcard flags cleared ([Qt]);
     C18_elim_prog_bind_var    bind(v, w) for two unbound variables (constraint sets
                               merged, bounds handed on, three rounds);
     C18_elim_prog_bind_compound  bind(v, compound type) (the sets of the variables
                               of the type merged into the set of v, one round);
     C18_elim_prog_unify / _fix / _apply
                               unify (subtype mode), fix, Type.apply keep GI;
     C18_elim_prog_empty       GI holds of the empty store.
   Every call of check_constraints inside these operations is made from a store
   with GI and [share] - that is how the theorems are proved (GI_cc is the only
   lemma about check_constraints they use).

   PARTIAL - what is missing for "reachable from empty_store by run_cmds on a progE
   program -> GI":  TypeSchema.instance, i.e. the creation of a constraint
   (Constraint.__init__: inform + fulfill at creation).  Three things are needed
   and not proved:  (i) the first minimize() of the DECLARED alternatives leaves a
   list whose comparable members are equal (PI; the declared list itself need not
   have this property, so the creation-time fulfill is outside the one-round
   development);  (ii) the new constraint is attached to exactly one set (the
   closure Constraint.variables(indirect=True) of a fresh schematic variable is that
   variable alone - the "own" invariant of Infer/TermElim.v part 4) so that [uq]
   holds when its minimized alternatives contain duplicates;  (iii) the schematic
   variables stay unbound while the constraints of their schema are created.

   (2) THE RELATIONAL LIFTING modulo eqk is NOT proved.  Besides (1) for instance it
   needs the congruence of the engine w.r.t. eqk under one schedule (two stores that
   differ in the raw reference of fulfilled elimination constraints run in lockstep):
   after the FIRST round with a choice point the two runs continue from stores that
   are eqk but not equal, and C18_elim_round compares runs from the SAME store.  Only
   check_constraints / fulfill / minimize / Constraint.variables read constraint
   records, and they read the reference of a fulfilled elimination constraint only
   through follow(), so the congruence is expected to hold; it is not proved.
   What is proved about whole operations is therefore:  every round inside unify /
   fix / apply from a GI store is individually schedule-independent
   (C18_elim_prog_round_pre + C18_elim_round), and the operation preserves GI whatever
   the schedule;  the statement "apply under two schedules ends in eqk stores" is
   missing exactly the lockstep congruence.

   (3) EXAMPLES by vm_compute: three progE programs with choice points (five resp. six
   schedule entries are consumed), all 216 three-entry schedules: same failing command, or same values and eqk stores
   ([same_outcome], an executable version of the target statement). *)
From Coq Require Import List Arith Bool.
Import ListNotations.
From TF Require Import Base.Hier Base.Ty Infer.Store Infer.Engine Infer.Run Infer.Inv Infer.Sound
  Infer.SchedIndep Infer.SoundElimS Infer.TermElim Infer.SchedIndepElimA Infer.SchedIndepElimR
  Infer.SchedIndepElim Infer.SchedIndepElimP.
From TF Require Infer.FitsEngineList.

Example C18_elim_prog_GI_unfold : forall H pend s,
  GI H pend s <->
  JE H s /\ invb true s /\
  (forall c l, c < length (constrs s) -> k_elim (constr_of s c) = true ->
     k_alts (constr_of s c) = FL.obs l -> PI H l) /\
  (forall c w, c < length (constrs s) -> k_elim (constr_of s c) = true ->
     k_done (constr_of s c) = false -> follow s (k_ref (constr_of s c)) = V w ->
     In c (cset_of s (c_cs (cell_of s w))) /\
     (pend c \/ stlE H s c \/
      ((forall j, In c (cset_of s j) -> j = c_cs (cell_of s w)) /\
       (forall x, x < length (vars s) -> c_bound (cell_of s x) = None ->
                  c_cs (cell_of s x) = c_cs (cell_of s w) -> x = w)))) /\
  (forall c, c < length (constrs s) -> k_elim (constr_of s c) = false ->
     k_done (constr_of s c) = true -> pfc H 4 s (constr_of s c) = PDone).
Proof. intros. reflexivity. Qed.

Example C18_elim_prog_share_unfold : forall s pend v,
  share s pend v <->
  forall c, pend c -> In c (cset_of s (c_cs (cell_of s v))) /\
    forall w, follow s (k_ref (constr_of s c)) = V w -> c_cs (cell_of s w) = c_cs (cell_of s v).
Proof. intros. reflexivity. Qed.

Theorem C18_elim_prog_round_pre : forall H pend s v, GI H pend s -> share s pend v -> RoundPre H s v.
Proof. exact GI_RoundPre. Qed.
Print Assumptions C18_elim_prog_round_pre.

Theorem C18_elim_prog_cc : forall H, wf_hier H -> forall pend f v s u s', GI H pend s -> share s pend v ->
  check_constraints H f v s = MOk u s' -> GI H nop s' /\ FrB s s'.
Proof. exact GI_cc. Qed.
Print Assumptions C18_elim_prog_cc.

Theorem C18_elim_prog_bind_base : forall H, wf_hier H -> forall f pend v o s, GI H pend s -> share s pend v ->
  v < length (vars s) -> c_bound (cell_of s v) = None -> variance H o = [] ->
  forall u s', bind H f v (O o []) s = MOk u s' -> GI H nop s' /\ FrB s s'.
Proof. intros H W f pend v o s G Sh Lv U Vo u s' E. exact (GS_bindb H W f pend v o s G Sh Lv U Vo u s' E). Qed.
Print Assumptions C18_elim_prog_bind_base.

Theorem C18_elim_prog_above : forall H, wf_hier H -> forall f pend v new s, GI H pend s -> share s pend v ->
  v < length (vars s) -> base_or_unb s v -> variance H new = [] -> new <> Bottom ->
  forall u s', above H f v new s = MOk u s' ->
  (GI H nop s' \/ (GI H pend s' /\ Qt s s')) /\ FrB s s'.
Proof. intros H W f pend v new s G Sh Lv B Vn N u s' E. exact (GS_above H W f pend v new s G Sh Lv B Vn N u s' E). Qed.
Print Assumptions C18_elim_prog_above.

Theorem C18_elim_prog_below : forall H, wf_hier H -> forall f pend v new s, GI H pend s -> share s pend v ->
  v < length (vars s) -> base_or_unb s v -> variance H new = [] -> new <> Top ->
  forall u s', below H f v new s = MOk u s' ->
  (GI H nop s' \/ (GI H pend s' /\ Qt s s')) /\ FrB s s'.
Proof. intros H W f pend v new s G Sh Lv B Vn N u s' E. exact (GS_below H W f pend v new s G Sh Lv B Vn N u s' E). Qed.
Print Assumptions C18_elim_prog_below.

Theorem C18_elim_prog_bind_var : forall H, wf_hier H -> forall f v w s, GI H nop s ->
  v < length (vars s) -> w < length (vars s) ->
  c_bound (cell_of s v) = None -> c_bound (cell_of s w) = None ->
  forall u s', bind H f v (V w) s = MOk u s' -> GI H nop s'.
Proof. intros H W f v w s G Lv Lw Uv Uw u s' E. exact (GS_bindV H W f v w s G Lv Lw Uv Uw u s' E). Qed.
Print Assumptions C18_elim_prog_bind_var.

Theorem C18_elim_prog_bind_compound : forall H, wf_hier H -> forall f v o args s, GI H nop s ->
  v < length (vars s) -> c_bound (cell_of s v) = None ->
  tg H (length (vars s)) (O o args) -> nocc s v (O o args) -> basic H o = false ->
  forall u s', bind H f v (O o args) s = MOk u s' -> GI H nop s'.
Proof. intros H W f v o args s G Lv U T N B u s' E. exact (GS_bindC H W f v o args s G Lv U T N B u s' E). Qed.
Print Assumptions C18_elim_prog_bind_compound.

Theorem C18_elim_prog_unify : forall H, wf_hier H -> forall f a b s, GI H nop s ->
  tg H (length (vars s)) a -> tg H (length (vars s)) b ->
  forall u s', unify H f true false false a b s = MOk u s' -> GI H nop s'.
Proof. intros H W f a b s G Ta Tb u s' E. exact (GS_unify_all H W f a b s G Ta Tb u s' E). Qed.
Print Assumptions C18_elim_prog_unify.

Theorem C18_elim_prog_fix : forall H, wf_hier H -> forall f pl t s, GI H nop s -> tg H (length (vars s)) t ->
  forall r s', fix_ty H f pl t s = MOk r s' -> GI H nop s'.
Proof. intros H W f pl t s G Tt r s' E. exact (GS_fix_all H W f pl t s G Tt r s' E). Qed.
Print Assumptions C18_elim_prog_fix.

Theorem C18_elim_prog_apply : forall H, wf_hier H -> forall fuel f0 x0 fixb s, GI H nop s ->
  tg H (length (vars s)) f0 -> tg H (length (vars s)) x0 ->
  forall r s', apply H fuel f0 x0 fixb s = MOk r s' -> GI H nop s'.
Proof. intros H W fuel f0 x0 fixb s G Tf Tx r s' E. exact (GS_apply H W fuel f0 x0 fixb s G Tf Tx r s' E). Qed.
Print Assumptions C18_elim_prog_apply.

Theorem C18_elim_prog_empty : forall H sc, GI H nop (empty_store sc).
Proof. exact GI_empty. Qed.

(* ---- (3) examples: all 216 three-entry schedules against the creation order ---- *)
Definition scheds3 : list (list nat) :=
  flat_map (fun a => flat_map (fun b => map (fun c => [a; b; c]) (seq 0 6)) (seq 0 6)) (seq 0 6).

(* three interacting elimination constraints on one variable (rprog of SchedIndepElim):
   rounds nested three deep, the raw reference of the third constraint depends on the order *)
Example C18_elim_prog_ex1 :
  progE rH 0 rprog /\
  forallb (fun sc => same_outcome (run_cmds rH 200 rprog 0 [] (empty_store []))
                                  (run_cmds rH 200 rprog 0 [] (empty_store sc))) scheds3 = true /\
  fst (fst (run_cmds rH 200 rprog 0 [] (empty_store []))) = None /\
  sched (snd (run_cmds rH 200 rprog 0 [] (empty_store [7; 7; 7; 7; 7]))) = [].
Proof. split; [exact rprog_progE|]. vm_compute. repeat split; reflexivity. Qed.

(* every order fails, with different kinds, at the same command (kprog) *)
Example C18_elim_prog_ex2 :
  progE kH 0 kprog /\
  forallb (fun sc => same_outcome (run_cmds kH 100 kprog 0 [] (empty_store []))
                                  (run_cmds kH 100 kprog 0 [] (empty_store sc))) scheds3 = true.
Proof. split; [exact kprog_progE|]. vm_compute. reflexivity. Qed.

(* two constrained variables unified afterwards: A = 5; B = 6, C = 7 < A; D = 8; K = 9 binary.
   K(x, y) [x << [B, D], y << [B, C], y <= A, x << [B, C]];  K(u, u) ** u applied to it merges the
   sets of x and y (four pending constraints in one set);  then (B ** B) applied to the result *)
Definition mH := mk_hier [(6,5);(7,5)] [(9,[true;true])].
Definition msig := mkSchema 2 (SOp 9 [SVar 0; SVar 1])
  [SCElim (SVar 0) [SOp 6 []; SOp 8 []]; SCElim (SVar 1) [SOp 6 []; SOp 7 []];
   SCSub (SVar 1) (SOp 5 []) false; SCElim (SVar 0) [SOp 6 []; SOp 7 []]].
Definition usig := mkSchema 1 (SOp Function [SOp 9 [SVar 0; SVar 0]; SVar 0]) [].
Definition mprog := [CInst msig; CInst usig; CApply 1 0 false;
                     CInst (mkSchema 0 (SOp Function [SOp 6 []; SOp 6 []]) []); CApply 3 2 false].

Lemma mgood b : In b [6; 7; 8] -> FL.good mH b.
Proof.
  intros Hb. cbn in Hb.
  destruct Hb as [<-|[<-|[<-|[]]]]; (apply gd_intro; [reflexivity|discriminate|discriminate]).
Qed.

Lemma mprog_progE : progE mH 0 mprog.
Proof.
  cbn [progE mprog]. repeat split; try (apply cE_apply; auto with arith; fail).
  - apply cE_inst; cbn [msig s_n s_body s_constrs].
    + repeat (constructor; cbn; auto with arith).
    + constructor; [|constructor; [|constructor; [|constructor; [|constructor]]]].
      * right. cbn. split; [auto with arith|]. exists [6; 8]. split; [|reflexivity]. repeat constructor; apply mgood; cbn; auto.
      * right. cbn. split; [auto with arith|]. exists [6; 7]. split; [|reflexivity]. repeat constructor; apply mgood; cbn; auto.
      * left. cbn. split; [auto with arith|reflexivity].
      * right. cbn. split; [auto with arith|]. exists [6; 7]. split; [|reflexivity]. repeat constructor; apply mgood; cbn; auto.
  - apply cE_inst; cbn; [|constructor]. repeat (constructor; cbn; auto with arith).
  - apply cE_inst; cbn; [|constructor]. repeat (constructor; cbn; auto with arith).
Qed.

Example C18_elim_prog_ex3 :
  progE mH 0 mprog /\
  forallb (fun sc => same_outcome (run_cmds mH 200 mprog 0 [] (empty_store []))
                                  (run_cmds mH 200 mprog 0 [] (empty_store sc))) scheds3 = true /\
  fst (fst (run_cmds mH 200 mprog 0 [] (empty_store []))) = None /\
  map k_done (constrs (snd (run_cmds mH 200 mprog 0 [] (empty_store [])))) = [true; true; false; true] /\
  sched (snd (run_cmds mH 200 mprog 0 [] (empty_store [1; 2; 3; 4; 5; 6; 7; 8; 9]))) = [7; 8; 9].
Proof. split; [exact mprog_progE|]. vm_compute. repeat split; reflexivity. Qed.
