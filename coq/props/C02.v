(* C02  Applying a concrete function type accepts exactly the subtypes of its input. *)
From Coq Require Import List Arith Bool.
Import ListNotations.
From TF Require Import Base.Hier Base.Ty Sub.Match Sub.SubSpec Sub.SubProofs.

Theorem C02_iff : forall H, wf_hier H -> forall a b x, wf_ty H a -> wf_ty H x ->
  (apply_c H (TOp Function [a; b]) x = AOk b <-> Sub H x a) /\
  (~ Sub H x a -> exists e, apply_c H (TOp Function [a; b]) x = AErr e /\
                            (e = ESubtypeMismatch \/ e = ETypeMismatch)).
Proof. exact apply_c_iff. Qed.
Print Assumptions C02_iff.

(* unify(subtype=True) and match(subtype=True) are separately coded; they agree *)
Theorem C02_unify_match : forall H, wf_hier H -> forall x a, wf_ty H x -> wf_ty H a ->
  (u H true true x a = None <-> match3 H true x a = Some true).
Proof. intros H W x a Wx Wa. exact (proj1 (u_m H W x Wx true a Wa)). Qed.
Print Assumptions C02_unify_match.

Theorem C02_top : forall H x, apply_c H (TOp Top []) x = AOk (TOp Top []).
Proof. exact apply_c_top. Qed.
Print Assumptions C02_top.

Theorem C02_nonfun : forall H o args x, o <> Function -> o <> Top ->
  apply_c H (TOp o args) x = AErr EFunctionApplication.
Proof. exact apply_c_nonfun. Qed.
Print Assumptions C02_nonfun.

Example C02_ex :
  let H := mk_hier [(6,5); (7,6)] [] in
  apply_c H (TOp Function [TOp Function [TOp 7 []; TOp 5 []]; TOp 6 []])
            (TOp Function [TOp 5 []; TOp 7 []]) = AOk (TOp 6 []) /\
  apply_c H (TOp Function [TOp Function [TOp 5 []; TOp 7 []]; TOp 6 []])
            (TOp Function [TOp 7 []; TOp 5 []]) = AErr ESubtypeMismatch.
Proof. split; reflexivity. Qed.
