(* C08  The from-edges reproduce the expression's data flow, including internal steps.

   Model      Graph/AddExpr.v      add_expr (graph.py:215-402) on from/internal/via triples,
                                   expr_nodes memo and blank-node counter; parameterised over
                                   add_from (C09) and over pinned/repaired wiring
   Spec       Graph/AddExprSpec.v  shape (L is the application tree of e), flow (the triples the
                                   property prescribes for L), names, tree (first-order), wfb
   Proofs     Graph/AddExprProofs.v
              Graph/AddExprParams.v  the same on the larger domain wfp (function-typed parameters
                                     handed on as arguments), additive

   The theorems are about the REPAIRED code (proposed_fixes/C08.diff, [pinned := false]);
   C08_pinned_refuted is about the code as pinned.
   Property theorems only; each is closed by [exact] of a library lemma. *)
From Coq Require Import List Arith Bool.
Import ListNotations.
From TF Require Import Graph.AddExpr Graph.AddExprSpec Graph.AddExprProofs Graph.AddExprParams.

(* For every well-formed expression (any depth, any number of function-typed
   arguments, nested higher-order operators, abstractions left by expanding
   composite operators) add_expr succeeds and, apart from tf:depends,
   produces EXACTLY the triples [flow L] where L is the application tree of e
   with an injective naming of its positions:
     - one node per operator application, one internal node per function-typed
       argument (NoDup (names L)),
     - one node per source object, shared by all its uses (shape/sh_src),
       different sources have different nodes, none of them is a step node,
     - the returned node is the node of the outermost step. *)
Theorem C08_flow : forall add_from, add_from_ok add_from ->
  forall e, wfb [] e = true ->
  exists L st',
    add_expr add_from false e None g_empty = Some (lnode L, st') /\
    shape (srcmap (g_memo st')) [] e L /\
    NoDup (names L) /\
    (forall i j n, srcmap (g_memo st') i = Some n -> srcmap (g_memo st') j = Some n -> i = j) /\
    (forall i n, srcmap (g_memo st') i = Some n -> ~ In n (names L)) /\
    (forall t, vis t -> (In t (g_tr st') <-> In t (flow L))).
Proof. exact add_expr_flow. Qed.
Print Assumptions C08_flow.

(* All arguments are data: the graph is the application tree (one edge from each
   step to the node of each argument, sources shared) and nothing else; in
   particular there is no internal node. *)
Theorem C08_first_order : forall add_from, add_from_ok add_from ->
  forall e, wfb [] e = true -> first_order e = true ->
  exists L st',
    add_expr add_from false e None g_empty = Some (lnode L, st') /\
    shape (srcmap (g_memo st')) [] e L /\ fob L = true /\
    NoDup (names L) /\
    (forall i j n, srcmap (g_memo st') i = Some n -> srcmap (g_memo st') j = Some n -> i = j) /\
    (forall i n, srcmap (g_memo st') i = Some n -> ~ In n (names L)) /\
    (forall t, vis t -> (In t (g_tr st') <-> In t (tree L))) /\
    (forall s o, ~ In (s, p_internal, o) (g_tr st')).
Proof. exact add_expr_first_order. Qed.
Print Assumptions C08_first_order.

(* The same from ANY consistent graph state and a fresh current node (what the
   workflow property C12 builds on): the new triples are flow L, added to the
   old ones; the memo only grows; allocated names are fresh. *)
Theorem C08_step : forall add_from, add_from_ok add_from ->
  forall e vs en c st, wfb vs e = true -> Inv st -> cur_ok c st -> env_ok vs en (g_memo st) ->
  exists L st', add_expr add_from false e (Some c) st = Some (lnode L, st') /\
                Post vs en e c st L st'.
Proof. exact add_expr_step. Qed.
Print Assumptions C08_step.

(* The code decides "the argument is a function" on the followed type (a4e52c5), so a
   function-typed PARAMETER of an enclosing abstraction that is handed on as an
   argument gets an internal node as well: the parameter's node (the enclosing
   internal node) is fed by it.  C08_flow on that larger domain (wfb vs e = true
   implies wfp vs e = true, shape implies shapep). *)
Theorem C08_flow_params : forall add_from, add_from_ok add_from ->
  forall e, wfp [] e = true ->
  exists L st',
    add_expr add_from false e None g_empty = Some (lnode L, st') /\
    shapep (srcmap (g_memo st')) [] e L /\
    NoDup (names L) /\
    (forall i j n, srcmap (g_memo st') i = Some n -> srcmap (g_memo st') j = Some n -> i = j) /\
    (forall i n, srcmap (g_memo st') i = Some n -> ~ In n (names L)) /\
    (forall t, vis t -> (In t (g_tr st') <-> In t (flow L))).
Proof. exact add_expr_flow_g. Qed.
Print Assumptions C08_flow_params.

Theorem C08_step_params : forall add_from, add_from_ok add_from ->
  forall e vs en c st, wfp vs e = true -> Inv st -> cur_ok c st -> env_ok vs en (g_memo st) ->
  exists L st', add_expr add_from false e (Some c) st = Some (lnode L, st') /\
                PostG vs en e c st L st'.
Proof. exact add_expr_step_g. Qed.
Print Assumptions C08_step_params.

Theorem C08_domain_extends : forall vs e, wfb vs e = true -> wfp vs e = true.
Proof. exact wfb_wfp. Qed.
Print Assumptions C08_domain_extends.

(* The wiring of one more argument is symmetric although the code builds it
   incrementally and asymmetrically (earlier arguments by the loop at
   graph.py:392-395, later ones by the loop at 386-388). *)
Theorem C08_snoc : forall c o args a t,
  In t (flow (LSpine c o (args ++ [a]))) <->
  In t (flow (LSpine c o args)) \/ In t (arg_edges c a) \/
  (exists i b, In i (aint a) /\ In b args /\ t = (i, p_from, anode b)) \/
  (exists b i, In b args /\ In i (aint b) /\ t = (i, p_from, anode a)) \/
  In t (flow (snd a)).
Proof. exact In_flow_snoc. Qed.
Print Assumptions C08_snoc.

(* The code as pinned violates the property:  h s (\y. s)  -- the internal node
   of the second argument does not receive the first argument, because
   graph.py:394 skips every input that is the same node as the function's
   result.  (With the arguments swapped it does receive it.) *)
Theorem C08_pinned_refuted :
  exists e L st',
    wfb [] e = true /\
    add_expr add_from_plain true e None g_empty = Some (lnode L, st') /\
    shape (srcmap (g_memo st')) [] e L /\
    exists t, In t (flow L) /\ ~ In t (g_tr st').
Proof. exact add_expr_pinned_refuted. Qed.
Print Assumptions C08_pinned_refuted.

(* ------------------------------------------------------------------------ *)
(* Non-vacuity: the hypotheses hold on non-trivial instances *)

Example C08_ex_add_from : add_from_ok add_from_plain.
Proof. exact add_from_plain_ok. Qed.

(* outer (inner f a) b  (test_nested_operation_as_parameter): nested internal nodes *)
Definition ex_nested : expr :=
  EApp 9 (EApp 8 (EOp 0 0) (EApp 7 (EApp 6 (EOp 1 1) (EOp 2 2) true) (ESrc 3) false) true)
       (ESrc 4) false.
(* f g h e a  with three function arguments (test_cycle), then an abstraction
   \x. k x x  and a shared source *)
Definition ex_three : expr :=
  EApp 20 (EApp 19 (EApp 18 (EApp 17 (EOp 10 3) (EOp 11 4) true) (EOp 12 5) true)
                   (EAbs 13 [14] (EApp 16 (EApp 15 (EOp 21 6) (EVar 14) false) (EVar 14) false)) true)
       (ESrc 3) false.

Example C08_ex_wf : wfb [] ex_nested = true /\ wfb [] ex_three = true /\
                    first_order ex_nested = false /\
                    first_order (EApp 2 (EApp 1 (EOp 0 0) (ESrc 5) false) (ESrc 5) false) = true.
Proof. repeat split; reflexivity. Qed.

(* the graph of the nested example is the hand-drawn one of the test-suite
   (0 outer, 1 outer's internal, 2 inner, 3 inner's internal, 4 f, 5 a, 6 b):
   inner's internal node receives a and outer's internal node; inner is fed by
   outer's internal node; f by inner's *)
Example C08_ex_nested_graph :
  exists st, add_expr add_from_plain false ex_nested None g_empty = Some (0, st) /\
    forall t, In t (g_tr st) <->
      In t [(0, p_via, 0); (2, p_via, 1); (4, p_via, 2);
            (0, p_internal, 1); (2, p_internal, 3);
            (0, p_from, 2); (0, p_from, 6); (2, p_from, 4); (2, p_from, 5); (2, p_from, 1);
            (4, p_from, 3); (3, p_from, 5); (3, p_from, 1); (1, p_from, 6)].
Proof.
  eexists. split; [vm_compute; reflexivity|]. intros t. cbn. tauto.
Qed.

(* a function-typed parameter handed on: in wfp, not in wfb; its graph *)
Example C08_ex_param : wfp [] ex_param = true /\ wfb [] ex_param = false.
Proof. exact ex_param_domain. Qed.
