(* C05, last sentence:  "Fixing a type whose bounded variables each occur with a
   single polarity yields the least instantiation within the bounds (lower
   bounds in covariant, upper bounds in contravariant positions)."

   Statements are about the engine model Infer/Engine.v ([fix_ty H fuel
   prefer_lower t] is TypeInstance.fix, transforge/type.py:394-409) in a store
   of the constraint-free fragment P: [J H s] (Infer/Sound.v: every constraint
   set empty, bindings well-scoped and arity-correct, bounds proper base
   operators with lower <= upper) and [inv s] / [core s] (Infer/Inv.v:
   acyclic bindings, indices in range).  Both hold of every store reached by a
   fragment-P program (Sound.core_final_J, Inv.engine_inv; see ex_reachable).

   Definitions (Infer/FixLeast.v):
     occ s pl t q v     descending from t with the flag prefer_lower = pl,
                        looking through bindings and flipping the flag at the
                        [false] (contravariant) entries of [variance H o], one
                        reaches the UNBOUND variable v with flag q
     occurs_pos s t v   = occ s true t true v     (v at a covariant position)
     occurs_neg s t v   = occ s true t false v    (v at a contravariant position)
     bounded s v        v has a lower or an upper bound
     single_polarity s t  no bounded variable occurs both ways
     bcell c o          the cell c resolved to the base type o:
                        mkCell false (Some (O o [])) (c_lower c) (c_upper c) (c_cs c)
     pbound q c         = if q then c_lower c else c_upper c
     bstep s s'         s' = s except that some unbound variables v got the
                        cell [bcell (cell_of s v) o] (same length, same
                        constraint sets, constraints and schedule)
     all_bounded s t    every variable met with flag q has the bound fix wants
                        there (pbound q <> None)
     closed s r         no unbound variable occurs in r
     xdepth s t         = depth t + |vars s| * (deepest binding of s): an
                        explicit bound on the operator nesting of t seen
                        through the bindings ([dle s t (xdepth s t)])
   and Sound.sat H th s (th grounds every variable: a bound variable denotes
   its binding, an unbound one a base type within its bounds), Sound.den.

   C05_fix_spec     any flag, no polarity hypothesis: exactly which cells change
   C05_fix_binds    single polarity, prefer_lower = true: every positively
                    occurring unbound variable with a lower bound is bound to
                    it, every negatively occurring one with an upper bound to
                    that; all other cells, the constraint sets, constraints and
                    schedule are unchanged; the result is follow s' t
   C05_fix_least_gen / C05_fix_least   the fixed type is below every
                    instantiation of t within the bounds and is one of them
   C05_fix_total    fuel > xdepth s t + 2 suffices, and fix cannot fail

   C17 (termination, fragment P = no constraints; Infer/TermP.v):
   C17_term_P_unify  unify (subtype mode, no skip flags) returns a value or a
                    typing error - never EFuel, never a crash - whenever
                    fuel > unify_bound s a b
                      = m + |vars s| * m + 7,  m = mdep s a b = max 1 (deepest
                        binding of s, depth a, depth b)
   C17_term_P_apply  the same for Type.apply with apply_bound s f x
                      = m + (|vars s| + 2) * m + 7
   C17_term_P_fix    = C05_fix_total
   Not covered: TypeSchema.instance (in fragment P it is allocation followed by
   fix_ty, whose bound is C05_fix_total in the store after allocation) and
   everything with constraints (check_constraints / fulfill / minimize). *)
From Coq Require Import List Arith Bool Lia.
Import ListNotations.
From TF Require Import Base.Hier Base.Ty Sub.SubSpec Infer.Store Infer.Engine Infer.Run
  Infer.Inv Infer.Sound Infer.FixLeast Infer.TermP.

(* ---------- 1. what fix changes ---------- *)

(* For every flag and every type (no polarity hypothesis): a cell changes only
   by resolving an unbound variable v to a bound [pbound q] it carries, for a
   flag q under which fix meets v; and every variable met under a flag for
   which it carries a bound is resolved.  The result is the followed argument. *)
Theorem C05_fix_spec : forall H, wf_hier H -> forall fuel pl t s r s',
  J H s -> core s -> tg H (length (vars s)) t ->
  fix_ty H fuel pl t s = MOk r s' ->
  (bstep s s' /\
   (forall v, cell_of s' v = cell_of s v \/
      (c_bound (cell_of s v) = None /\
       exists q o, occ H s pl t q v /\ pbound q (cell_of s v) = Some o /\
                   cell_of s' v = bcell (cell_of s v) o)) /\
   (forall q v o, occ H s pl t q v -> pbound q (cell_of s v) = Some o ->
                  c_bound (cell_of s' v) <> None)) /\
  r = follow s' t.
Proof. exact fix_spec_x. Qed.
Print Assumptions C05_fix_spec.

Theorem C05_fix_binds : forall H, wf_hier H -> forall fuel t s r s',
  J H s -> core s -> tg H (length (vars s)) t -> single_polarity H s t ->
  fix_ty H fuel true t s = MOk r s' ->
  r = follow s' t /\ bstep s s' /\
  forall v,
    (forall l, occurs_pos H s t v -> c_lower (cell_of s v) = Some l ->
               cell_of s' v = bcell (cell_of s v) l) /\
    (forall u, occurs_neg H s t v -> c_upper (cell_of s v) = Some u ->
               cell_of s' v = bcell (cell_of s v) u) /\
    (~ (occurs_pos H s t v /\ c_lower (cell_of s v) <> None) ->
     ~ (occurs_neg H s t v /\ c_upper (cell_of s v) <> None) ->
     cell_of s' v = cell_of s v).
Proof. exact fix_binds. Qed.
Print Assumptions C05_fix_binds.

(* ---------- 2. the fixed type is the least instantiation ---------- *)

(* General form (variables without the wanted bound stay open): every
   grounding th within the bounds before fixing has a counterpart th' after
   fixing that agrees with th on everything fix left open and is itself within
   the bounds before fixing; under th' the fixed type r denotes what t denotes
   (an instantiation of t within the bounds), and that is a subtype of what t
   denotes under th. *)
Theorem C05_fix_least_gen : forall H, wf_hier H -> forall fuel t s r s',
  J H s -> inv s -> tg H (length (vars s)) t -> single_polarity H s t ->
  fix_ty H fuel true t s = MOk r s' ->
  forall th, sat H th s ->
  exists th', sat H th' s' /\ sat H th' s /\
    (forall v, c_bound (cell_of s' v) = None -> th' v = th v) /\
    den th' r = den th' t /\
    Sub H (den th' r) (den th t).
Proof. exact fix_least_gen. Qed.
Print Assumptions C05_fix_least_gen.

(* When every positively occurring unbound variable has a lower bound and every
   negatively occurring one an upper bound, the result is closed (concrete:
   its denotation is the same under every grounding of s'), it is a subtype of
   EVERY instantiation of t within the bounds, it is itself such an
   instantiation, and groundings of s' exist. *)
Theorem C05_fix_least : forall H, wf_hier H -> forall fuel t s r s',
  J H s -> inv s -> tg H (length (vars s)) t -> single_polarity H s t -> all_bounded H s t ->
  fix_ty H fuel true t s = MOk r s' ->
  closed H s' r /\
  (forall th th', sat H th s -> sat H th' s' -> Sub H (den th' r) (den th t)) /\
  (forall th', sat H th' s' -> sat H th' s /\ den th' t = den th' r) /\
  (exists th', sat H th' s').
Proof. exact fix_least. Qed.
Print Assumptions C05_fix_least.

(* ---------- 3. termination of fix (C17, fragment P) ---------- *)

Theorem C05_dle_xdepth : forall s t, wsc s -> dle s t (xdepth s t).
Proof. exact dle_xdepth. Qed.
Print Assumptions C05_dle_xdepth.

(* with more fuel than xdepth s t + 2, fix returns a value: it neither runs
   out of fuel nor fails *)
Theorem C05_fix_total : forall H, wf_hier H -> forall fuel pl t s,
  J H s -> inv s -> tg H (length (vars s)) t -> xdepth s t + 2 < fuel ->
  exists r s', fix_ty H fuel pl t s = MOk r s'.
Proof. exact fix_total. Qed.
Print Assumptions C05_fix_total.

Theorem C17_term_P_fix : forall H, wf_hier H -> forall fuel pl t s,
  J H s -> inv s -> tg H (length (vars s)) t -> xdepth s t + 2 < fuel ->
  forall s', fix_ty H fuel pl t s <> MEr EFuel s'.
Proof. exact fix_term. Qed.
Print Assumptions C17_term_P_fix.

(* ---------- 4. termination of unify and apply (C17, fragment P) ---------- *)

Theorem C17_term_P_unify : forall H, wf_hier H -> forall fuel a b s,
  J H s -> inv s -> tg H (length (vars s)) a -> tg H (length (vars s)) b ->
  unify_bound s a b < fuel ->
  (exists s', unify H fuel true false false a b s = MOk tt s') \/
  (exists e s', unify H fuel true false false a b s = MEr e s' /\ e <> EFuel /\
                forall site, e <> ECrash site).
Proof. exact unify_term. Qed.
Print Assumptions C17_term_P_unify.

Theorem C17_term_P_apply : forall H, wf_hier H -> forall fuel f x fixb s,
  J H s -> inv s -> tg H (length (vars s)) f -> tg H (length (vars s)) x ->
  apply_bound s f x < fuel ->
  forall s', apply H fuel f x fixb s <> MEr EFuel s'.
Proof. exact apply_term. Qed.
Print Assumptions C17_term_P_apply.

(* the bounds are explicit functions of the store and the arguments *)
Example unify_bound_def : forall s a b,
  unify_bound s a b =
    Nat.max 1 (Nat.max (mdepth s) (Nat.max (depth a) (depth b)))
    + length (vars s) * Nat.max 1 (Nat.max (mdepth s) (Nat.max (depth a) (depth b))) + 7.
Proof. reflexivity. Qed.
Example apply_bound_def : forall s f x,
  apply_bound s f x =
    Nat.max 1 (Nat.max (mdepth s) (Nat.max (depth f) (depth x)))
    + (length (vars s) + 2) * Nat.max 1 (Nat.max (mdepth s) (Nat.max (depth f) (depth x))) + 7.
Proof. reflexivity. Qed.
Example xdepth_def : forall s t, xdepth s t = depth t + length (vars s) * mdepth s.
Proof. reflexivity. Qed.

(* ---------- non-vacuity ---------- *)

(* A(5) > B(6) > C(7), D(8) < A a sibling of B, F(9) unary covariant *)
Definition exH : hier := mk_hier [(6,5); (7,6); (8,5)] [(9, [true])].
Example exH_wf : wf_hier exH.
Proof.
  split.
  - intros o p. cbn. repeat (destruct o as [|o]; try discriminate; cbn); intros [= <-]; auto with arith.
  - intros o p. cbn. repeat (destruct o as [|o]; try discriminate; cbn); intros [= <-]; cbn; repeat split; discriminate.
  - split; reflexivity.
  - split; reflexivity.
  - reflexivity.
Qed.

(* g : (x ** D) ** y ** (x ** F(y)) applied to (B ** D) and then to C leaves the
   function type  x ** F(y)  (not fixed by apply: it is a function) with
   x <= B (upper bound only, contravariant) and y >= C (lower bound only). *)
Definition ex_sig : schema := mkSchema 2
  (SOp Function [SOp Function [SVar 0; SOp 8 []];
     SOp Function [SVar 1; SOp Function [SVar 0; SOp 9 [SVar 1]]]]) [].
Definition ex_prog : list cmd :=
  [CInst ex_sig; CInst (mkSchema 0 (SOp Function [SOp 6 []; SOp 8 []]) []); CApply 0 1 true;
   CInst (mkSchema 0 (SOp 7 []) []); CApply 2 3 true].
Definition ex_s : store :=
  mkStore [mkCell false None None (Some 6) 0; mkCell false None (Some 7) None 1] [[]; []] [] [].
Definition ex_t : tyv := O Function [V 0; O 9 [V 1]].

Example ex_run : exists vals,
  run_cmds exH 20 ex_prog 0 [] (empty_store []) = (None, vals, ex_s) /\ last vals (V 0) = ex_t.
Proof. eexists. split; vm_compute; reflexivity. Qed.

(* the store is reachable by a fragment-P program, hence J and inv hold *)
Example ex_reachable : J exH ex_s /\ inv ex_s /\ tg exH (length (vars ex_s)) ex_t.
Proof.
  destruct ex_run as (vals & R & L).
  assert (P : progP exH 0 ex_prog).
  { cbn. repeat split; try (apply cP_apply; lia); apply cP_inst; try reflexivity;
      repeat (first [apply sg_V; cbn; lia | apply sg_O; [reflexivity|] | constructor]). }
  destruct (core_final_J exH exH_wf 20 [] ex_prog vals ex_s P R) as [I F].
  destruct (engine_inv exH 20 [] ex_prog (progP_wf exH _ _ P) R) as [Iv _].
  split; [exact I|split; [exact Iv|]].
  rewrite <- L. rewrite Forall_forall in F. apply F.
  clear - R. vm_compute in R. injection R as <-. cbn. auto 10.
Qed.

(* x = V 0 occurs only negatively, y = V 1 only positively *)
Example ex_occ : occurs_neg exH ex_s ex_t 0 /\ occurs_pos exH ex_s ex_t 1.
Proof.
  split.
  - eapply (occ_op exH ex_s true Function _ 0 (V 0) false); [reflexivity|reflexivity|].
    apply occ_unb. reflexivity.
  - eapply (occ_op exH ex_s true Function _ 1 (O 9 [V 1]) true); [reflexivity|reflexivity|].
    eapply (occ_op exH ex_s true 9 _ 0 (V 1) true); [reflexivity|reflexivity|].
    apply occ_unb. reflexivity.
Qed.

Ltac ex_inv_occ :=
  repeat match goal with
  | Hx : occ _ _ _ (O _ _) _ _ |- _ => inversion Hx; subst; clear Hx
  | Hx : nth_error _ ?i = Some _ |- _ =>
      is_var i; destruct i as [|[|i]]
  | Hx : nth_error _ (S (S ?i)) = Some _ |- _ =>
      exfalso; clear - Hx; cbn in Hx; destruct i; discriminate Hx
  | Hx : nth_error _ _ = Some _ |- _ =>
      vm_compute in Hx; first [discriminate Hx | injection Hx as <-]
  | Hx : occ _ _ _ (V _) _ _ |- _ => inversion Hx; subst; clear Hx
  | Hx : c_bound (cell_of ex_s _) = Some _ |- _ => discriminate Hx
  end.

(* every occurrence: V 0 with flag false, V 1 with flag true *)
Example ex_occ_all : forall q v, occ exH ex_s true ex_t q v -> (q = false /\ v = 0) \/ (q = true /\ v = 1).
Proof. intros q v Oc. unfold ex_t in Oc. ex_inv_occ; cbn; auto. Qed.

Example ex_hyps : single_polarity exH ex_s ex_t /\ all_bounded exH ex_s ex_t.
Proof.
  split.
  - intros v _ [P N]. apply ex_occ_all in P. apply ex_occ_all in N.
    destruct P as [[? ?]|[? ?]], N as [[? ?]|[? ?]]; congruence.
  - intros q v Oc. apply ex_occ_all in Oc. destruct Oc as [[-> ->]|[-> ->]]; discriminate.
Qed.

(* the model computes what C05_fix_binds says: x := B (its upper bound),
   y := C (its lower bound), i.e. B ** F(C); fuel 6 = xdepth + 3 suffices *)
Example ex_fix :
  xdepth ex_s ex_t = 2 /\
  fix_ty exH 5 true ex_t ex_s =
    MOk ex_t (mkStore [mkCell false (Some (O 6 [])) None (Some 6) 0;
                       mkCell false (Some (O 7 [])) (Some 7) None 1] [[]; []] [] []).
Proof. split; vm_compute; reflexivity. Qed.

(* without single polarity the first occurrence wins and the result need not be
   least: x ** x with C <= x <= A is fixed to A ** A (x met first in argument
   position), which is not below the instantiation B ** B *)
Example ex_not_single :
  let s := mkStore [mkCell false None (Some 7) (Some 5) 0] [[]] [] [] in
  fix_ty exH 5 true (O Function [V 0; V 0]) s =
    MOk (O Function [V 0; V 0]) (mkStore [mkCell false (Some (O 5 [])) (Some 7) (Some 5) 0] [[]] [] []).
Proof. vm_compute. reflexivity. Qed.

(* termination bounds on the instance: F(y) <= F(A) makes A the upper bound of y;
   the bound 13 is not tight (4 units suffice here, 3 do not) *)
Example ex_unify_term :
  unify_bound ex_s (O 9 [V 1]) (O 9 [O 5 []]) = 13 /\
  unify exH 14 true false false (O 9 [V 1]) (O 9 [O 5 []]) ex_s =
    MOk tt (mkStore [mkCell false None None (Some 6) 0; mkCell false None (Some 7) (Some 5) 1]
                    [[]; []] [] []) /\
  (exists s', unify exH 3 true false false (O 9 [V 1]) (O 9 [O 5 []]) ex_s = MEr EFuel s').
Proof. split; [|split; [|eexists]]; vm_compute; reflexivity. Qed.

(* applying x ** F(y) to C: x >= C, and the result F(y) is fixed to F(C) *)
Example ex_apply_term :
  apply_bound ex_s ex_t (O 7 []) = 17 /\
  (exists s', apply exH 18 ex_t (O 7 []) true ex_s = MOk (O 9 [V 1]) s' /\
              cell_of s' 0 = mkCell false None (Some 7) (Some 6) 0 /\
              cell_of s' 1 = mkCell false (Some (O 7 [])) (Some 7) None 1).
Proof. split; [|eexists; split; [|split]]; vm_compute; reflexivity. Qed.
