(* C09  depends is the transitive closure of from.
   Property theorems only; each is closed by [exact] of a library lemma.

   [add_from]/[run] model the REPAIRED TransformationGraph.add_from
   (proposed_fixes/C09.diff); [add_from_pinned]/[run_pinned] the pinned one.
   Every tf:from and tf:depends triple of a generated graph is created by a
   call of add_from, so a generated graph is [run ops] for the sequence [ops]
   of calls (flag recursive, (a, b)) that add_expr / add_workflow performed;
   the theorems quantify over ALL such sequences. *)
From Coq Require Import List Arith Bool.
Import ListNotations.
From TF Require Import Graph.Closure.

(* a depends b  iff  b is reachable from a over one or more from-edges -- for
   every insertion history, with either flag, cycles and self-loops included *)
Theorem C09_all_histories : forall (ops : list op) a b,
  In (a, b) (dep (run ops)) <-> clos (map snd ops) a b.
Proof. exact depends_iff_reachable. Qed.
Print Assumptions C09_all_histories.

(* ... where the from-edges are exactly the ones that were added *)
Theorem C09_from_exact : forall (ops : list op) e,
  In e (frm (run ops)) <-> In e (map snd ops).
Proof. exact run_frm. Qed.
Print Assumptions C09_from_exact.

(* the same as an invariant: one call keeps it, from any graph that has it
   (adding further expressions or workflow steps to an existing graph) *)
Theorem C09_step : forall recursive g a b, closed g -> closed (add_from recursive g a b).
Proof. exact add_from_closed. Qed.
Print Assumptions C09_step.

Theorem C09_invariant : forall g (ops : list op), closed g -> closed (run_from g ops).
Proof. exact run_from_closed. Qed.
Print Assumptions C09_invariant.

(* ... and it holds after every single call, not only at the end *)
Theorem C09_every_prefix : forall (ops : list op) g, closed g -> Forall closed (trace_from g ops).
Proof. exact trace_from_closed. Qed.
Print Assumptions C09_every_prefix.

(* the order in which sub-expressions / steps get added is irrelevant *)
Theorem C09_order_irrelevant : forall (ops ops' : list op),
  (forall e, In e (map snd ops) <-> In e (map snd ops')) ->
  forall a b, In (a, b) (dep (run ops)) <-> In (a, b) (dep (run ops')).
Proof. exact run_order_irrelevant. Qed.
Print Assumptions C09_order_irrelevant.

(* [clos] is the transitive closure: contains E, transitive, least such *)
Theorem C09_clos_is_transitive_closure : forall E,
  (forall x y, In (x, y) E -> clos E x y) /\
  (forall x y z, clos E x y -> clos E y z -> clos E x z) /\
  (forall R : nat -> nat -> Prop, (forall x y, In (x, y) E -> R x y) ->
     (forall x y z, R x y -> R y z -> R x z) -> forall x y, clos E x y -> R x y).
Proof. exact (fun E => conj (clos_one E) (conj (clos_trans E) (clos_least E))). Qed.
Print Assumptions C09_clos_is_transitive_closure.

(* the decider the harness evaluates on the implementation's own triples *)
Theorem C09_decider : forall g, closedb g = true <-> closed g.
Proof. exact closedb_spec. Qed.
Print Assumptions C09_decider.

Theorem C09_tcl : forall E x y, In (x, y) (tcl E) <-> clos E x y.
Proof. exact tcl_spec. Qed.
Print Assumptions C09_tcl.

(* The pinned code violates the property as soon as an edge is added below a
   node that something already depends on ... *)
Theorem C09_pinned_refuted : exists ops : list op, ~ closed (run_pinned ops).
Proof. exact pinned_refuted. Qed.
Print Assumptions C09_pinned_refuted.

(* ... and is right exactly on strictly bottom-up histories *)
Theorem C09_pinned_bottom_up : forall ops : list op, bottom_up [] ops -> closed (run_pinned ops).
Proof. exact pinned_bottom_up. Qed.
Print Assumptions C09_pinned_bottom_up.

(* Non-vacuity.  The history of  m f f' (-: A)  with
   m : (A ** A) ** (A ** A) ** A ** A  as add_expr produces it
   (0 = m, 1 = internal1, 2 = f, 3 = internal2, 4 = f', 5 = source); it is
   cyclic (1 -> 4 -> 3 -> 2 -> 1) and not bottom-up; the last call uses the
   recursive flag as add_workflow does without passthrough (6 = next tool's
   input source). *)
Definition ex_ops : list op :=
  [(false, (2, 1)); (false, (0, 2)); (false, (4, 3)); (false, (0, 4)); (false, (1, 4));
   (false, (3, 2)); (false, (0, 5)); (false, (1, 5)); (false, (3, 5)); (true, (5, 6))].
Example ex_cyclic : clos (map snd ex_ops) 1 1.
Proof.
  apply clos_step with 4; [cbn; tauto|]. apply clos_step with 3; [cbn; tauto|].
  apply clos_step with 2; [cbn; tauto|]. apply clos_one. cbn. tauto.
Qed.
Example ex_not_bottom_up : ~ bottom_up [] ex_ops.
Proof. cbn. intros [_ [_ [_ [_ [_ [_ [_ [_ [H _]]]]]]]]]. apply (H 2). tauto. Qed.
Example ex_closed_size : length (dep (run ex_ops)) = 31 /\ closedb (run ex_ops) = true.
Proof. split; vm_compute; reflexivity. Qed.
Example ex_late_edge_propagates : In (2, 6) (dep (run ex_ops)) /\ ~ In (2, 6) (dep (run_pinned ex_ops)).
Proof. split; [vm_compute; tauto | vm_compute; intuition discriminate]. Qed.
Example ex_pinned_not_closed : closedb (run_pinned ex_ops) = false /\ closedb (run_pinned witness_ops) = false.
Proof. split; vm_compute; reflexivity. Qed.
(* a bottom-up history on which the pinned code is right:  g (f s) s  *)
Example ex_bottom_up : bottom_up [] [(false, (1, 2)); (false, (0, 1)); (false, (0, 2))].
Proof. cbn. intuition congruence. Qed.
