(* C11  A task query matches exactly the workflows that contain the described flow.
   Property theorems only; each is closed by [exact] of a library lemma.

   Model: Query/Gen.v (assign_variables, sparql and its parts, the chronology
   worklist; graph.py as repaired by proposed_fixes/C11_containsOperation.diff
   emits containsOperation), Query/Bgp.v (standard meaning of the generated
   fragment).  The per-step type disjunction and the type pre-filter are the
   TypeUnion / Bag models of property C20 (Bag/*.v). *)
From Coq Require Import List Arith Bool Lia.
Import ListNotations.
From TF Require Import Base.Hier Base.Ty Sub.Match Sub.SubSpec Sub.SubProofs.
From TF Require Import Bag.Union Bag.Bag Bag.BagTy.
From TF Require Import Query.Bgp Query.Gen Query.GenProofs Query.Spec Query.Assign Query.TaskSpec Query.Check.

(* The decision procedure the harness runs on the model's conjuncts decides
   the declarative meaning: some assignment of graph terms to the variables
   satisfies every conjunct. *)
Theorem C11_matcher_decides : forall G q, matcho G q = true <-> matches G q.
Proof. exact matcho_spec. Qed.
Print Assumptions C11_matcher_decides.

(* assign_variables, with or without unfold_tree, on ANY task graph (tree or
   DAG; cyclic ones are rejected): the variables it leaves form an acyclic
   skeleton in which every variable is an output or follows another one;
   variables, links, output and input marks are exactly those of the step
   nodes reachable from the outputs ([from_task]: sound and complete), one
   variable per step node unless unfold_tree. *)
Theorem C11_assign_dag : forall fuel T unfold sk, skeleton fuel T unfold = Ok sk ->
  sk_dag sk /\ exists nodes, from_task T unfold sk nodes.
Proof. exact skeleton_dag. Qed.
Print Assumptions C11_assign_dag.

(* The chronology worklist visits exactly the variables, on every acyclic
   skeleton (Kahn completeness; the fuel of the model is sufficient). *)
Theorem C11_worklist : forall sk, sk_dag sk ->
  forall v, In v (chron_order sk) <-> v < sk_n sk.
Proof. exact chron_order_spec. Qed.
Print Assumptions C11_worklist.

(* Without any hypothesis on the graph: an assignment solves the generated
   query exactly when it satisfies the explicit conditions, conjunct by
   conjunct, under every combination of the by_* switches. *)
Theorem C11_gen_sat : forall H sw sk G s, sk_dag sk ->
  (sat G s (gen H sw sk) <-> pre_raw H sw G sk /\ flow_raw H sw G sk s).
Proof. exact gen_sat. Qed.
Print Assumptions C11_gen_sat.

(* On transformation graphs (membership triples cover what nodes carry, nodes
   carry all canonical supertypes): the query returns the workflow iff the
   membership pre-filter's meaning holds and the flow conditions have a
   solution, where every alternative type / operator of a step is allowed -
   the TypeUnion and Bag reductions do not change the meaning.  All switches. *)
Theorem C11_gen_sem : forall H canon G fuel T unfold sw sk,
  wf_hier H -> graph_ok H canon G ->
  skeleton fuel T unfold = Ok sk -> sk_canon H canon sk ->
  (matches G (gen H sw sk) <-> prefilter_sem sw G sk /\ exists s, flow_sem sw G sk s).
Proof. exact query_sem. Qed.
Print Assumptions C11_gen_sem.

(* The property's sentence (chronology on; any other switches; tree- and
   DAG-shaped tasks; unfold_tree or not): the query generated from a task
   returns the workflow iff the task's steps can be assigned to graph terms
   such that outputs are the workflow output (or a direct input of it), input
   steps are workflow inputs, each step's operator is the node's, each step's
   type is a canonical supertype the node carries, and each link follows
   depends (or is the same node, under the documented rule). *)
Theorem C11_query_spec : forall H canon G fuel T unfold sw sk,
  wf_hier H -> graph_ok H canon G ->
  skeleton fuel T unfold = Ok sk -> sk_canon H canon sk -> by_chronology sw = true ->
  (matches G (gen H sw sk) <-> assignable sw G sk).
Proof. exact query_spec. Qed.
Print Assumptions C11_query_spec.

(* ... and the same on the task graph itself: the steps are the step nodes
   reachable from the task's outputs ([task_assignable] does not mention the
   generator's variables at all). *)
Theorem C11_task_spec : forall H canon G fuel T sw sk,
  wf_hier H -> graph_ok H canon G ->
  skeleton fuel T false = Ok sk -> sk_canon H canon sk -> by_chronology sw = true ->
  (matches G (gen H sw sk) <-> task_assignable sw G T).
Proof. exact task_query_spec. Qed.
Print Assumptions C11_task_spec.

(* the same for every acyclic skeleton *)
Theorem C11_gen_spec : forall H canon sw sk G, wf_hier H -> graph_ok H canon G -> sk_dag sk ->
  sk_canon H canon sk -> by_chronology sw = true ->
  (matches G (gen H sw sk) <-> assignable sw G sk).
Proof. exact gen_spec. Qed.
Print Assumptions C11_gen_spec.

(* Hence: a task read off a workflow's own graph matches it (every switch
   combination): steps taken from nodes [emb v], listing only operators and
   canonical supertypes the node carries, links along depends. *)
Theorem C11_self : forall H canon sw sk G (emb : nat -> const),
  wf_hier H -> graph_ok H canon G -> sk_dag sk -> sk_canon H canon sk ->
  (forall v, In v (sk_outs sk) -> holds G CWf (out_path sw) (emb v)) ->
  (forall v, In v (sk_ins sk) -> holds G CWf (in_path sw) (emb v)) ->
  (forall v o, v < sk_n sk -> In o (opof sk v) -> In (emb v, PVia, COp o) G) ->
  (forall v t, v < sk_n sk -> In t (tyof sk v) -> In (emb v, PSubtypeOf, CTy t) G) ->
  (forall c v, In (c, v) (sk_edges sk) -> In (emb c, PDepends, emb v) G) ->
  matches G (gen H sw sk).
Proof. exact self_match. Qed.
Print Assumptions C11_self.

(* ... generalising types to canonical supertypes (Top is what a wildcard is
   written as), dropping types, dropping leaf steps or whole branches never
   loses a match ... *)
Theorem C11_mono : forall H canon sw sk sk' h G, wf_hier H -> graph_ok H canon G ->
  sk_dag sk -> sk_dag sk' -> sk_canon H canon sk -> sk_canon H canon sk' ->
  by_chronology sw = true -> task_le H sk' sk h ->
  matches G (gen H sw sk) -> matches G (gen H sw sk').
Proof. exact mono. Qed.
Print Assumptions C11_mono.

(* ... requiring an absent operator or type never matches ... *)
Theorem C11_absent_operator : forall H sw sk G v o, sk_valid sk ->
  by_operators sw = true -> v < sk_n sk -> opof sk v = [o] ->
  ~ In (CWf, PContainsOperation, COp o) G -> ~ matches G (gen H sw sk).
Proof. exact absent_operator. Qed.
Print Assumptions C11_absent_operator.

Theorem C11_absent_operator_nodes : forall H sw sk G v, sk_dag sk ->
  by_chronology sw = true -> v < sk_n sk -> opof sk v <> [] ->
  (forall o n, In o (opof sk v) -> ~ In (n, PVia, COp o) G) -> ~ matches G (gen H sw sk).
Proof. exact absent_operator_nodes. Qed.
Print Assumptions C11_absent_operator_nodes.

Theorem C11_absent_type : forall H canon sw sk G v, wf_hier H -> graph_ok H canon G -> sk_dag sk ->
  sk_canon H canon sk -> by_types sw = true -> v < sk_n sk -> tyof sk v <> [] ->
  (forall t, In t (tyof sk v) -> ~ In (CWf, PContainsType, CTy t) G) -> ~ matches G (gen H sw sk).
Proof. exact absent_type. Qed.
Print Assumptions C11_absent_type.

(* ... and every predicate the query tests is one the graph generator emits. *)
Theorem C11_vocab : forall H sw sk p, In p (query_preds (gen H sw sk)) -> In p graph_vocab.
Proof. exact gen_vocab. Qed.
Print Assumptions C11_vocab.

(* On the pinned tree the graph generator writes containsOperator: the
   operator pre-filter tests a predicate no graph contains. *)
Theorem C11_vocab_pinned_refuted :
  exists H sw sk, sk_dag sk /\
    exists p, In p (query_preds (gen H sw sk)) /\ ~ In p graph_vocab_pinned.
Proof. exact vocab_pinned_refuted. Qed.
Print Assumptions C11_vocab_pinned_refuted.

(* the graph hypotheses can be checked by computation *)
Theorem C11_graph_okb : forall H cl G, wf_hier H -> graph_okb H cl G = true ->
  graph_ok H (fun t => In t cl) G.
Proof. exact graph_okb_spec. Qed.
Print Assumptions C11_graph_okb.

(* ------------------------------------------------------------------ *)
(* Non-vacuity.  A(5) > B(6), C(7); operators a2b = 0 : A -> B, b2c = 1 : B -> C,
   never used c2a = 2.  The workflow  b2c (a2b (- : A)). *)
Definition eH : hier := mk_hier [(6, 5)] [].
Example eH_wf : wf_hier eH.
Proof.
  split.
  - intros o p. cbn. repeat (destruct o as [|o]; try discriminate; cbn); intros [= <-]; auto with arith.
  - intros o p. cbn. repeat (destruct o as [|o]; try discriminate; cbn); intros [= <-]; cbn; repeat split; discriminate.
  - split; reflexivity.
  - split; reflexivity.
  - reflexivity.
Qed.
Definition tTop := TOp 0 []. Definition tA := TOp 5 []. Definition tB := TOp 6 []. Definition tC := TOp 7 [].
Definition eCanon : list ty := [tTop; tA; tB; tC].
Definition eG_with (membership : pred) : graph :=
  [ (CWf, PRdfType, CTransformation); (CWf, POutput, CNode 0);
    (CNode 0, PVia, COp 1); (CNode 0, PSubtypeOf, CTy tC); (CNode 0, PSubtypeOf, CTy tTop);
    (CNode 0, PFrom, CNode 1); (CNode 0, PDepends, CNode 1); (CNode 0, PDepends, CNode 2);
    (CNode 1, PVia, COp 0); (CNode 1, PSubtypeOf, CTy tB); (CNode 1, PSubtypeOf, CTy tA);
    (CNode 1, PSubtypeOf, CTy tTop); (CNode 1, PFrom, CNode 2); (CNode 1, PDepends, CNode 2);
    (CNode 2, PSubtypeOf, CTy tA); (CNode 2, PSubtypeOf, CTy tTop);
    (CWf, membership, COp 0); (CWf, membership, COp 1);
    (CWf, PContainsType, CTy tC); (CWf, PContainsType, CTy tB); (CWf, PContainsType, CTy tA);
    (CWf, PContainsType, CTy tTop) ].
Definition eG : graph := eG_with PContainsOperation.

Example eG_ok : graph_ok eH (fun t => In t eCanon) eG.
Proof. apply graph_okb_spec; [exact eH_wf | vm_compute; reflexivity]. Qed.

(* the task  [C, b2c, [a2b, [A]]]  as a task graph, and a DAG-shaped one in
   which the source step is shared *)
Definition eT : task :=
  mkTask [(10, mkTnode [tC] [1] [11] false); (11, mkTnode [] [0] [12] false);
          (12, mkTnode [tA] [] [] false)] [10].
Definition eT_dag : task :=
  mkTask [(10, mkTnode [tC] [1] [11; 12] false); (11, mkTnode [tB; tC] [0] [12] false);
          (12, mkTnode [tA] [] [] false)] [10].
Definition eSk : skel := mkSkel [[tC]; []; [tA]] [[1]; [0]; []] [(1, 2); (0, 1)] [0] [].

Example e_skeleton : skeleton 8 eT false = Ok eSk /\ skeleton 8 eT true = Ok eSk.
Proof. split; vm_compute; reflexivity. Qed.

Example e_canon : sk_canon eH (fun t => In t eCanon) eSk.
Proof. apply sk_canonb_spec. vm_compute. reflexivity. Qed.

(* both sides of C11_query_spec hold on a non-trivial instance ... *)
Example e_match : matcho eG (gen eH default_sw eSk) = true.
Proof. vm_compute. reflexivity. Qed.

Example e_match_dag :
  match skeleton 8 eT_dag false, skeleton 8 eT_dag true with
  | Ok sk1, Ok sk2 => sk_n sk1 = 3 /\ sk_n sk2 = 4 /\
                      matcho eG (gen eH default_sw sk1) = true /\
                      matcho eG (gen eH default_sw sk2) = true
  | _, _ => False
  end.
Proof. vm_compute. repeat split; reflexivity. Qed.

(* ... and both fail on another: the same steps in the wrong order *)
Example e_nomatch :
  match skeleton 8 (mkTask [(10, mkTnode [tC] [0] [11] false); (11, mkTnode [] [1] [] false)] [10]) false with
  | Ok sk => matcho eG (gen eH default_sw sk) = false
  | _ => False
  end.
Proof. vm_compute. reflexivity. Qed.

(* cyclic task graphs are rejected *)
Example e_cycle :
  skeleton 8 (mkTask [(10, mkTnode [tC] [] [11] false); (11, mkTnode [] [0] [10] false)] [10]) false = Cycle.
Proof. vm_compute. reflexivity. Qed.

(* a generalisation in the sense of C11_mono: type C replaced by Top, the
   type of the last step and the whole last step dropped *)
Definition eSk_le : skel := mkSkel [[tTop]; []] [[1]; [0]] [(0, 1)] [0] [].
Example e_task_le : task_le eH eSk_le eSk (fun v => v).
Proof.
  split; unfold sk_n; cbn.
  - intros v Hv. lia.
  - intros v [<-|[]]. now left.
  - intros v [].
  - intros [|[|v]] Hv; try reflexivity. lia.
  - intros [|[|v]] Hv; [right|left; reflexivity|lia]. split; [discriminate|].
    intros t [<-|[]]. exists tTop. split; [now left | apply SubTop].
  - intros c v [[= <- <-]|[]]. right. now left.
Qed.
Example e_match_le : matcho eG (gen eH default_sw eSk_le) = true.
Proof. vm_compute. reflexivity. Qed.

(* an absent operator *)
Example e_absent :
  matcho eG (gen eH default_sw (mkSkel [[tC]; []] [[1]; [2]] [(0, 1)] [0] [])) = false.
Proof. vm_compute. reflexivity. Qed.

(* The pinned graph generator (containsOperator): the task read off the
   workflow's own graph does not match it under the standard meaning of the
   query, although its steps are assignable - the witness the harness replays:
   workflow  b2c (a2b (- : A)),  task  [C, b2c, [a2b, [A]]]. *)
Example e_pinned_self_refuted :
  matcho (eG_with PContainsOperator) (gen eH default_sw eSk) = false /\
  matcho (eG_with PContainsOperator) (flat_map (emit_step eH eSk) (chron_order eSk)) = true.
Proof. split; vm_compute; reflexivity. Qed.
