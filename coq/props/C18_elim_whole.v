(* C18 for the class progE, whole programs: what is proved and what is not
   (Infer/SchedIndepElimI.v, Infer/SchedIndepElimQ.v, Infer/SchedIndepElimW.v).

   (a) PROVED: THE INVARIANT IS REACHABLE-CLOSED.
     C18_elim_whole_first_minimize  the first minimize() of any list of user base
                                    operators leaves a list whose comparable members
                                    are equal (PI);
     C18_elim_whole_instance        TypeSchema.instance of a pscE schema keeps GI
                                    (any fuel): the closure of a fresh schematic
                                    variable is that variable alone, the new
                                    constraint is attached to one set only, and is
                                    settled or unique ([uq]) if it stays pending;
     C18_elim_whole_reach_GI        progE prog -> every store in which run_cmds
                                    stops without error satisfies GI (any fuel, any
                                    schedule);  with C18_elim_prog_* : every store in
                                    which the engine starts a round while it runs a
                                    progE program satisfies RoundPre;
     C18_elim_whole_reach_round_pre / _reach_round
                                    in particular RoundPre holds of every reachable
                                    store for every variable, and a round started
                                    there is schedule-independent (C18_elim_round
                                    without hypothesis).

   (b) PROVED: THE LOCKSTEP CONGRUENCE, for the relation [eqr]
   (C18_elim_whole_eqr_unfold: [eqk] without the clause on the followed reference;
   C18_elim_whole_eqk_eqr).  Under one and the same schedule, from [eqr]-related
   stores, unify / bind / above / below / fix_ty / check_constraints / fulfill (all
   modes, all arguments, all fuels) return the same value or the same error and
   leave [eqr]-related stores with the same remaining schedule; minimize does so for
   a constraint whose record is the same in both stores (C18_elim_whole_lockstep,
   C18_elim_whole_lockstep_unfold).  No invariant is needed: fulfill returns before it
   reads the reference of a fulfilled elimination constraint, and nothing else in
   the engine reads constraint records.
     C18_elim_whole_round_rel / _round_rel_fuel
                                    hence ONE ROUND from two [eqr]-related stores,
                                    under any two schedules, the second store
                                    satisfying RoundPre: both succeed with
                                    [eqr]-related stores, or both fail (or fuel);
     C18_elim_whole_reach_round_rel the same for two reachable stores.
   NOT covered by (b): Constraint.variables(indirect=True) at the creation of a
   constraint ([closure_f] reads the terms of all constraints of the sets it visits,
   including raw references of fulfilled elimination constraints).  Under GI the
   closure of a fresh schematic variable visits no foreign set (part (a)), so this
   needs the invariant on both sides; it is part of what is missing in (c).

   (c) PARTIAL: THE WHOLE-PROGRAM THEOREM.
     C18_elim_whole_partial         IF a single command from two [eqr]-related GI
                                    stores behaves alike under any two schedules
                                    (hypothesis [RelCmd], C18_elim_whole_RelCmd_unfold)
                                    THEN for progE prog and prog_fuelE prog <= fuel the
                                    runs under any two schedules both fail at the same
                                    command (neither by fuel) or both succeed with the
                                    same values and [eqr]-related stores.
   MISSING = RelCmd, i.e. lifting C18_elim_whole_round_rel through the operations that
   call check_constraints: the two runs take the same branches (cells and sets are
   equal), but at every inner call of check_constraints both stores must be known to
   satisfy GI and [share]; the unary proofs in Infer/SchedIndepElimP.v / ...I.v
   establish this for each run separately, inside the proofs.  The lifting is their
   relational replay (bind base / above / below / bind var-var / bind compound /
   unify / fix / apply / new_constraint / instance), with [eqr] carried along by the
   lockstep lemmas of (b) between the rounds.  It is not done.
   Also not proved: that the two final stores agree on the FOLLOWED reference of
   fulfilled elimination constraints ([eqk] instead of [eqr]); one round gives it
   (C18_elim_round), the lockstep congruence is proved for [eqr] only. *)
From Coq Require Import List Arith Bool.
Import ListNotations.
From TF Require Import Base.Hier Base.Ty Infer.Store Infer.Engine Infer.Run Infer.Inv Infer.Sound
  Infer.SchedIndep Infer.SoundElimS Infer.TermElim Infer.SchedIndepElimA Infer.SchedIndepElimR
  Infer.SchedIndepElim Infer.SchedIndepElimP Infer.SchedIndepElimI Infer.SchedIndepElimQ
  Infer.SchedIndepElimW.
From TF Require Infer.FitsEngineList.

(* ---------------- (a) ---------------- *)
Theorem C18_elim_whole_first_minimize : forall H, wf_hier H -> forall l,
  Forall (FL.good H) l -> PI H (FL.mins_of H l).
Proof. exact PI_mins_of. Qed.
Print Assumptions C18_elim_whole_first_minimize.

Theorem C18_elim_whole_instance : forall H, wf_hier H -> forall fuel sc s, GI H nop s ->
  styg H (s_n sc) (s_body sc) -> Forall (pscE H (s_n sc)) (s_constrs sc) ->
  forall t s', instance H fuel sc s = MOk t s' -> GI H nop s'.
Proof. intros H W fuel sc s G Sb Pc t s' E. exact (instance_GI H W fuel sc s G Sb Pc t s' E). Qed.
Print Assumptions C18_elim_whole_instance.

Theorem C18_elim_whole_reach_GI : forall H, wf_hier H -> forall fuel sc prog vals s,
  progE H 0 prog -> run_cmds H fuel prog 0 [] (empty_store sc) = (None, vals, s) -> GI H nop s.
Proof. exact reach_GI. Qed.
Print Assumptions C18_elim_whole_reach_GI.

Theorem C18_elim_whole_reach_step : forall H, wf_hier H -> forall fuel c vals s, GI H nop s ->
  Forall (tg H (length (vars s))) vals -> cmdE H (length vals) c ->
  forall vals' s', run_cmd H fuel c vals s = MOk vals' s' ->
  GI H nop s' /\ Forall (tg H (length (vars s'))) vals'.
Proof. intros H W fuel c vals s G Fv Pc vals' s' E. exact (run_cmd_GI H W fuel c vals s G Fv Pc vals' s' E). Qed.
Print Assumptions C18_elim_whole_reach_step.

Theorem C18_elim_whole_reach_round_pre : forall H, wf_hier H -> forall fuel sc prog vals s v,
  progE H 0 prog -> run_cmds H fuel prog 0 [] (empty_store sc) = (None, vals, s) -> RoundPre H s v.
Proof. exact reach_RoundPre. Qed.
Print Assumptions C18_elim_whole_reach_round_pre.

Theorem C18_elim_whole_reach_round : forall H, wf_hier H -> forall fuel sc prog vals s v f1 f2 sc1 sc2,
  progE H 0 prog -> run_cmds H fuel prog 0 [] (empty_store sc) = (None, vals, s) ->
  match check_constraints H f1 v (with_sched s sc1), check_constraints H f2 v (with_sched s sc2) with
  | MOk _ t1, MOk _ t2 => eqk t1 t2
  | MOk _ _, MEr e _ => e = EFuel
  | MEr e _, MOk _ _ => e = EFuel
  | MEr _ _, MEr _ _ => True
  end.
Proof. exact reach_round_indep. Qed.
Print Assumptions C18_elim_whole_reach_round.

(* ---------------- (b) ---------------- *)
Example C18_elim_whole_eqr_unfold : forall t1 t2,
  eqr t1 t2 <->
  vars t1 = vars t2 /\ csets t1 = csets t2 /\ length (constrs t1) = length (constrs t2) /\
  forall c, let k1 := constr_of t1 c in let k2 := constr_of t2 c in
    k_elim k1 = k_elim k2 /\ k_alts k1 = k_alts k2 /\ k_strict k1 = k_strict k2 /\ k_done k1 = k_done k2 /\
    (k_ref k1 = k_ref k2 \/ (k_elim k1 = true /\ k_done k1 = true)).
Proof. intros. reflexivity. Qed.

Theorem C18_elim_whole_eqk_eqr : forall t1 t2, eqk t1 t2 -> eqr t1 t2.
Proof. exact eqk_eqr. Qed.

Example C18_elim_whole_lockstep_unfold : forall A (m : M A),
  cong m <->
  forall s1 s2, (eqr s1 s2 /\ sched s1 = sched s2) ->
    match m s1, m s2 with
    | MOk a t1, MOk b t2 =>
        a = b /\ (eqr t1 t2 /\ sched t1 = sched t2) /\
        (length (constrs t1) = length (constrs s1) /\
         forall c, k_elim (constr_of t1 c) = k_elim (constr_of s1 c)) /\
        (length (constrs t2) = length (constrs s2) /\
         forall c, k_elim (constr_of t2 c) = k_elim (constr_of s2 c))
    | MEr e1 _, MEr e2 _ => e1 = e2
    | _, _ => False
    end.
Proof. intros. reflexivity. Qed.

Theorem C18_elim_whole_lockstep : forall H f,
  (forall sub skb skw a b, cong (unify H f sub skb skw a b)) /\
  (forall v t, cong (bind H f v t)) /\
  (forall v o, cong (above H f v o)) /\
  (forall v o, cong (below H f v o)) /\
  (forall pl t, cong (fix_ty H f pl t)) /\
  (forall v, cong (check_constraints H f v)) /\
  (forall c, cong (fulfill H f c)) /\
  (forall c s1 s2, (eqr s1 s2 /\ sched s1 = sched s2) -> constr_of s1 c = constr_of s2 c ->
     match minimize H f c s1, minimize H f c s2 with
     | MOk a t1, MOk b t2 =>
         a = b /\ (eqr t1 t2 /\ sched t1 = sched t2) /\ kp s1 t1 /\ kp s2 t2 /\
         constr_of t1 c = constr_of t2 c
     | MEr e1 _, MEr e2 _ => e1 = e2
     | _, _ => False
     end).
Proof. exact cong_all. Qed.
Print Assumptions C18_elim_whole_lockstep.

Theorem C18_elim_whole_round_rel : forall H, wf_hier H -> forall f1 f2 v s1 s2,
  eqr s1 s2 -> RoundPre H s2 v ->
  match check_constraints H f1 v s1, check_constraints H f2 v s2 with
  | MOk _ t1, MOk _ t2 => eqr t1 t2
  | MOk _ _, MEr e _ => e = EFuel
  | MEr e _, MOk _ _ => e = EFuel
  | MEr _ _, MEr _ _ => True
  end.
Proof. exact round_rel. Qed.
Print Assumptions C18_elim_whole_round_rel.

Theorem C18_elim_whole_round_rel_fuel : forall H, wf_hier H -> forall f1 f2 v s1 s2,
  eqr s1 s2 -> RoundPre H s2 v -> 5 * und s2 + 5 <= f1 -> 5 * und s2 + 5 <= f2 ->
  match check_constraints H f1 v s1, check_constraints H f2 v s2 with
  | MOk _ t1, MOk _ t2 => eqr t1 t2
  | MEr e1 _, MEr e2 _ => e1 <> EFuel /\ e2 <> EFuel
  | _, _ => False
  end.
Proof. exact round_rel_fuel. Qed.
Print Assumptions C18_elim_whole_round_rel_fuel.

Theorem C18_elim_whole_reach_round_rel : forall H, wf_hier H ->
  forall fuel fuel' sc sc' prog vals vals' s s' v f1 f2, progE H 0 prog ->
  run_cmds H fuel prog 0 [] (empty_store sc) = (None, vals, s) ->
  run_cmds H fuel' prog 0 [] (empty_store sc') = (None, vals', s') ->
  eqr s s' ->
  match check_constraints H f1 v s, check_constraints H f2 v s' with
  | MOk _ t1, MOk _ t2 => eqr t1 t2
  | MOk _ _, MEr e _ => e = EFuel
  | MEr e _, MOk _ _ => e = EFuel
  | MEr _ _, MEr _ _ => True
  end.
Proof. exact reach_round_rel. Qed.
Print Assumptions C18_elim_whole_reach_round_rel.

(* ---------------- (c) ---------------- *)
Example C18_elim_whole_RelCmd_unfold : forall H,
  RelCmd H <->
  forall fuel c vals s1 s2, cmdE H (length vals) c -> Forall (tg H (length (vars s1))) vals ->
    eqr s1 s2 -> GI H nop s1 -> GI H nop s2 ->
    match run_cmd H fuel c vals s1, run_cmd H fuel c vals s2 with
    | MOk a t1, MOk b t2 => a = b /\ eqr t1 t2
    | MOk _ _, MEr e _ => e = EFuel
    | MEr e _, MOk _ _ => e = EFuel
    | MEr _ _, MEr _ _ => True
    end.
Proof. intros. reflexivity. Qed.

Theorem C18_elim_whole_partial : forall H, wf_hier H -> RelCmd H ->
  forall fuel prog sc1 sc2, progE H 0 prog -> prog_fuelE prog <= fuel ->
  match run_cmds H fuel prog 0 [] (empty_store sc1), run_cmds H fuel prog 0 [] (empty_store sc2) with
  | (None, v1, t1), (None, v2, t2) => v1 = v2 /\ eqr t1 t2
  | (Some (e1, i1), _, _), (Some (e2, i2), _, _) => i1 = i2 /\ e1 <> EFuel /\ e2 <> EFuel
  | _, _ => False
  end.
Proof. exact whole_partial. Qed.
Print Assumptions C18_elim_whole_partial.

(* ---------------- examples ---------------- *)
(* rprog of Infer/SchedIndepElim.v under the schedules [] and [0;1]: both final stores
   satisfy GI (by C18_elim_whole_reach_GI, not by computation), they are [eqr]-related
   and differ (the raw reference of the third constraint) *)
Definition wr1 := run_cmds rH 200 rprog 0 [] (empty_store []).
Definition wr2 := run_cmds rH 200 rprog 0 [] (empty_store [0; 1]).

Example C18_elim_whole_ex_GI : GI rH nop (snd wr1) /\ GI rH nop (snd wr2).
Proof.
  split.
  - apply (reach_GI rH rH_wf 200 [] rprog (snd (fst wr1)) (snd wr1) rprog_progE). vm_compute. reflexivity.
  - apply (reach_GI rH rH_wf 200 [0; 1] rprog (snd (fst wr2)) (snd wr2) rprog_progE). vm_compute. reflexivity.
Qed.

Example C18_elim_whole_ex_eqr : eqr (snd wr1) (snd wr2) /\ constrs (snd wr1) <> constrs (snd wr2).
Proof.
  split.
  - split; [vm_compute; reflexivity|]. split; [vm_compute; reflexivity|]. split; [vm_compute; reflexivity|].
    intros [|[|[|[|c]]]]; vm_compute; auto 8.
  - vm_compute. discriminate.
Qed.

(* hence a round on variable 0 started in the two stores, under whatever remains of
   the two schedules, gives [eqr]-related stores *)
Example C18_elim_whole_ex_round : forall f1 f2 v,
  match check_constraints rH f1 v (snd wr1), check_constraints rH f2 v (snd wr2) with
  | MOk _ t1, MOk _ t2 => eqr t1 t2
  | MOk _ _, MEr e _ => e = EFuel
  | MEr e _, MOk _ _ => e = EFuel
  | MEr _ _, MEr _ _ => True
  end.
Proof.
  intros f1 f2 v.
  apply (reach_round_rel rH rH_wf 200 200 [] [0; 1] rprog (snd (fst wr1)) (snd (fst wr2)) (snd wr1) (snd wr2) v f1 f2
           rprog_progE); [vm_compute; reflexivity|vm_compute; reflexivity|].
  exact (proj1 C18_elim_whole_ex_eqr).
Qed.
