(* C06, engine link for CONCRETE alternatives of ANY shape (strengthens
   C06_engine_bases of props/C06_list.v from base-type alternatives to compound
   types F(A), G(A, B), function types, Top, Bottom, mixed lists).

   On the faithful fuelled model of the inference engine (Infer/Engine.v), for
   EVERY well-formed hierarchy H, every non-empty list alts of well-formed
   concrete types (no distinctness / incomparability assumption), every
   well-formed concrete argument x, every schedule sc (no choice point is
   reached) and every fuel with

       length alts + tys_depth alts + ty_depth x + 10 <= fuel

   (tys_depth = the largest ty_depth in the list, a leaf has depth 0), the program

       f = TypeSchema(lambda a: a ** a [a << alts]).instance()
       v = x.instance()
       f.apply(v, fix=True)

   run from the empty store ends without error
        iff  x is a subtype (Sub) of some alternative
        iff  accept_spec H x alts = true
        iff  x Fits some alternative (specification of Infer/Fits.v; for concrete
             alternatives Fits = Sub, C06_concrete);
   a failure happens at the apply (command 2) with a declared error, never a
   crash or fuel exhaustion (C06_engine_conc).

   WHAT THE MODEL RETURNS, exactly (C06_engine_conc_exact), in terms of
   [cmins H alts], the pure description of what EliminationConstraint.minimize
   leaves of alts (C06_minimize_conc: the model's minimize computes it;
   C06_cmins_sound / C06_cmins_cover: kept alternatives are given ones and every
   given one is below a kept one):

   * exactly one alternative m is left by minimize and m is not Top:
     instance() unifies the variable with m AT ONCE (for a compound m the
     variable is bound to the concrete m itself: skip flags are off, no skeleton
     of fresh variables is made; for a base type m the variable gets upper bound
     m and is then fixed to m by instance()'s fix; Bottom binds directly).  The
     application is the plain application of (m -> m): accepted iff Sub x m, the
     result is m, a misfit raises what the code's unify raises on the concrete
     pair (x, m) ([u] of Sub/Match.v, the model of C01/C02): SubtypeMismatch or
     TypeMismatch, NOT a constraint violation;
   * exactly one alternative is left and it is Top: always accepted, the result
     is the argument x;
   * several alternatives are left (two comparable-free alternatives, or
     duplicates that minimize produces): the variable stays constrained until
     the apply; accepted iff some alternative is above x, the result is the
     argument x ITSELF (the variable is bound to x, or to the base type x via its
     lower bound and apply's fix), whether one or several alternatives survive
     the filter; a misfit is ConstraintViolation;
   * a Bottom argument is accepted (when the variable is not already resolved)
     without determining anything: unify skips Bottom, the result is the
     still unresolved variable V 0.

   In every accepted case the result R satisfies  x <= R <= T  for a fitting
   alternative T (C06_engine_conc_result).

   Not covered here: alternatives that mention variables or wildcards (see
   props/C06_pat.v for two families). *)
From Coq Require Import List Arith Bool.
Import ListNotations.
From TF Require Import Base.Hier Base.Ty Sub.Match Sub.SubSpec Sub.SubProofs
  Infer.Store Infer.Engine Infer.Run Infer.Fits Infer.FitsEngine Infer.FitsEngineList
  Infer.FitsEnginePat Infer.FitsEngineConcBase Infer.FitsEngineConc.

(* ---------- acceptance ---------- *)
Theorem C06_engine_conc : forall H, wf_hier H -> forall x alts fuel sc,
  wf_ty H x -> Forall (wf_ty H) alts -> alts <> [] ->
  length alts + tys_depth alts + ty_depth x + 10 <= fuel ->
  let outcome := fst (fst (run_cmds H fuel
        [CInst (mkSchema 1 (SOp Function [SVar 0; SVar 0]) [SCElim (SVar 0) (map sconc alts)]);
         CInst (mkSchema 0 (sconc x) []);
         CApply 0 1 true] 0 [] (empty_store sc))) in
  (outcome = None <-> exists T, In T alts /\ Sub H x T) /\
  (outcome = None <-> accept_spec H x (map sconc alts) = true) /\
  (outcome = None <-> exists T, In T alts /\ Fits H x (sconc T)) /\
  (outcome <> None ->
     (exists m e, cmins H alts = [m] /\ u H true true x m = Some e /\
                  outcome = Some (conv e, 2) /\
                  (conv e = ESubtypeMismatch \/ conv e = ETypeMismatch)) \/
     ((forall m, cmins H alts <> [m]) /\ outcome = Some (EConstraintViolation, 2))).
Proof. exact engine_conc_accept. Qed.
Print Assumptions C06_engine_conc.

(* ---------- the exact observation: error (with command index) and the pushed
   values resolved in the final store ---------- *)
Theorem C06_engine_conc_exact : forall H, wf_hier H -> forall x alts fuel sc,
  wf_ty H x -> Forall (wf_ty H) alts -> alts <> [] ->
  length alts + tys_depth alts + ty_depth x + 10 <= fuel ->
  let r := run_cmds H fuel
        [CInst (mkSchema 1 (SOp Function [SVar 0; SVar 0]) [SCElim (SVar 0) (map sconc alts)]);
         CInst (mkSchema 0 (sconc x) []);
         CApply 0 1 true] 0 [] (empty_store sc) in
  let sig := O Function [V 0; V 0] in
  let res_arg := if Nat.eqb (ty_op x) Bottom then V 0 else inj x in
  (fst (fst r), map (follow (snd r)) (snd (fst r))) =
  match cmins H alts with
  | [m] =>
      if Nat.eqb (ty_op m) Top then (None, [sig; inj x; res_arg])
      else match u H true true x m with
           | None => (None, [sig; inj x; inj m])
           | Some e => (Some (conv e, 2), [sig; inj x])
           end
  | _ => if existsb (subb H x) alts then (None, [sig; inj x; res_arg])
         else (Some (EConstraintViolation, 2), [sig; inj x])
  end.
Proof. exact engine_conc. Qed.
Print Assumptions C06_engine_conc_exact.

(* ---------- the accepted result lies between the argument and a fitting
   alternative ---------- *)
Theorem C06_engine_conc_result : forall H, wf_hier H -> forall x alts fuel sc,
  wf_ty H x -> Forall (wf_ty H) alts -> alts <> [] ->
  length alts + tys_depth alts + ty_depth x + 10 <= fuel ->
  (exists T, In T alts /\ Sub H x T) ->
  let run := run_cmds H fuel
        [CInst (mkSchema 1 (SOp Function [SVar 0; SVar 0]) [SCElim (SVar 0) (map sconc alts)]);
         CInst (mkSchema 0 (sconc x) []);
         CApply 0 1 true] 0 [] (empty_store sc) in
  let R := match cmins H alts with
           | [m] => if Nat.eqb (ty_op m) Top then x else m
           | _ => x
           end in
  exists r T,
    (fst (fst run), map (follow (snd run)) (snd (fst run))) = (None, [O Function [V 0; V 0]; inj x; r]) /\
    (r = inj R \/ (ty_op x = Bottom /\ R = x /\ r = V 0)) /\
    In T alts /\ Sub H x T /\ Sub H x R /\ Sub H R T.
Proof. exact engine_conc_result. Qed.
Print Assumptions C06_engine_conc_result.

(* ---------- the ingredients ---------- *)

(* [subb] decides the declarative order; the code's unify on concrete types
   succeeds exactly on it *)
Theorem C06_subb_spec : forall H, wf_hier H -> forall a b, wf_ty H a -> wf_ty H b ->
  (subb H a b = true <-> Sub H a b).
Proof. exact subb_spec. Qed.
Print Assumptions C06_subb_spec.

Theorem C06_subb_unify : forall H, wf_hier H -> forall x B, wf_ty H x -> wf_ty H B ->
  (subb H x B = true <-> u H true true x B = None).
Proof. exact subb_u. Qed.
Print Assumptions C06_subb_unify.

(* the engine's match / unify on two concrete types compute the concrete-type
   model of Sub/Match.v (C01/C02) and never touch the store *)
Theorem C06_match_conc : forall H A B f s sub aw, ty_depth A < f ->
  match_f H f s sub aw (inj A) (inj B) = Ok (m H sub true A B).
Proof. exact match_inj_fwd. Qed.
Print Assumptions C06_match_conc.

Theorem C06_unify_conc : forall H A B f s, ty_depth A < f ->
  unify H f true false false (inj A) (inj B) s =
  match u H true true A B with None => MOk tt s | Some e => MEr (conv e) s end.
Proof. exact unify_inj_fwd. Qed.
Print Assumptions C06_unify_conc.

(* the model's minimize rewrites concrete alternatives to [cmins] *)
Theorem C06_minimize_conc : forall H f c s l, Forall (fun x => ty_depth x < f) l ->
  k_alts (constr_of s c) = map inj l ->
  minimize H (S f) c s =
  MOk tt (set_constr s c
            (mkConstr (k_elim (constr_of s c)) (follow s (k_ref (constr_of s c)))
                      (map inj (cmins H l))
                      (k_strict (constr_of s c)) (k_done (constr_of s c)))).
Proof. exact minimize_conc_fwd. Qed.
Print Assumptions C06_minimize_conc.

Theorem C06_cmins_sound : forall H l x, In x (cmins H l) -> In x l.
Proof. exact cmins_in. Qed.
Print Assumptions C06_cmins_sound.

Theorem C06_cmins_cover : forall H, wf_hier H -> forall l x, Forall (wf_ty H) l -> In x l ->
  exists mi, In mi (cmins H l) /\ subb H x mi = true.
Proof. exact cmins_cover. Qed.
Print Assumptions C06_cmins_cover.

Theorem C06_cmins_exists : forall H, wf_hier H -> forall a l, wf_ty H a -> Forall (wf_ty H) l ->
  existsb (subb H a) (cmins H l) = existsb (subb H a) l.
Proof. exact cmins_exists. Qed.
Print Assumptions C06_cmins_exists.

(* ---------- non-vacuity ---------- *)
(* base types A=5, B=6, C=7, B'=8 < A, C'=9 < C; F=10 unary, G=11 binary,
   K=12 unary (all covariant) *)
Definition exC : hier := mk_hier [(8,5); (9,7)] [(10,[true]); (11,[true;true]); (12,[true])].
Example exC_wf : wf_hier exC.
Proof.
  split.
  - intros o p. cbn. repeat (destruct o as [|o]; try discriminate; cbn); intros [= <-]; auto with arith.
  - intros o p. cbn. repeat (destruct o as [|o]; try discriminate; cbn); intros [= <-]; cbn; repeat split; discriminate.
  - split; reflexivity.
  - split; reflexivity.
  - reflexivity.
Qed.

Definition tA := TOp 5 []. Definition tB := TOp 6 []. Definition tC := TOp 7 [].
Definition tB' := TOp 8 []. Definition tC' := TOp 9 [].
Definition tF (a : ty) := TOp 10 [a]. Definition tG (a b : ty) := TOp 11 [a; b].
Definition tK (a : ty) := TOp 12 [a]. Definition tFun (a b : ty) := TOp Function [a; b].

Definition altsFG : list ty := [tF tA; tG tB tC].            (* [F(A); G(B, C)] *)
Definition altsFun : list ty := [tFun tB' tB].               (* [B' -> B] *)
Definition altsMix : list ty := [tFun tB' tB; tF tA; tA].    (* function, compound and base alternative *)
Definition altsCmp : list ty := [tF tB'; tF tA].             (* comparable: minimize keeps F(A) only *)

Definition ex_obs (x : ty) (alts : list ty) :=
  let r := run_cmds exC 15
        [CInst (mkSchema 1 (SOp Function [SVar 0; SVar 0]) [SCElim (SVar 0) (map sconc alts)]);
         CInst (mkSchema 0 (sconc x) []);
         CApply 0 1 true] 0 [] (empty_store []) in
  (fst (fst r), map (follow (snd r)) (snd (fst r))).

(* the hypotheses of the theorems hold on these instances *)
Example C06_conc_hyps :
  Forall (wf_ty exC) altsFG /\ Forall (wf_ty exC) altsFun /\ Forall (wf_ty exC) altsMix /\
  Forall (wf_ty exC) altsCmp /\
  wf_ty exC (tF tB') /\ wf_ty exC (tG tB tC') /\ wf_ty exC (tK tA) /\ wf_ty exC (TOp Bottom []) /\
  wf_ty exC (tFun tA tB) /\ wf_ty exC (tFun tB tB) /\
  length altsMix + tys_depth altsMix + ty_depth (tFun tA tB) + 10 <= 15.
Proof.
  assert (F : forall l, forallb (wf_tyb exC) l = true -> Forall (wf_ty exC) l).
  { intros l E. apply Forall_forall. intros t I. apply wf_tyb_spec. rewrite forallb_forall in E. auto. }
  repeat split; try (apply F; reflexivity); try (apply wf_tyb_spec; reflexivity).
  vm_compute. auto with arith.
Qed.

Example C06_conc_mins :
  cmins exC altsFG = altsFG /\ cmins exC altsCmp = [tF tA] /\ cmins exC altsMix = altsMix /\
  cmins exC [tA; tF tB; TOp Top []] = [TOp Top []; TOp Top []].
Proof. repeat split; reflexivity. Qed.

(* the engine model itself on these instances (fuel 15) *)
Example C06_conc_engine :
  (* [F(A); G(B, C)]: F(B') and G(B, C') fit, K(A) does not, Bottom fits without determining anything *)
  ex_obs (tF tB') altsFG = (None, [O Function [V 0; V 0]; inj (tF tB'); inj (tF tB')]) /\
  ex_obs (tG tB tC') altsFG = (None, [O Function [V 0; V 0]; inj (tG tB tC'); inj (tG tB tC')]) /\
  ex_obs (tK tA) altsFG = (Some (EConstraintViolation, 2), [O Function [V 0; V 0]; inj (tK tA)]) /\
  ex_obs (TOp Bottom []) altsFG = (None, [O Function [V 0; V 0]; O Bottom []; V 0]) /\
  (* a function type as the only alternative: the variable IS that type; (A -> B) <= (B' -> B) *)
  ex_obs (tFun tA tB) altsFun = (None, [O Function [V 0; V 0]; inj (tFun tA tB); inj (tFun tB' tB)]) /\
  ex_obs (tFun tB tB) altsFun = (Some (ESubtypeMismatch, 2), [O Function [V 0; V 0]; inj (tFun tB tB)]) /\
  ex_obs (tF tA) altsFun = (Some (ETypeMismatch, 2), [O Function [V 0; V 0]; inj (tF tA)]) /\
  (* mixed alternatives *)
  ex_obs (tFun tA tB) altsMix = (None, [O Function [V 0; V 0]; inj (tFun tA tB); inj (tFun tA tB)]) /\
  ex_obs tB' altsMix = (None, [O Function [V 0; V 0]; inj tB'; inj tB']) /\
  ex_obs tB altsMix = (Some (EConstraintViolation, 2), [O Function [V 0; V 0]; inj tB]) /\
  (* comparable alternatives are merged: the result is the merged alternative *)
  ex_obs (tF tB') altsCmp = (None, [O Function [V 0; V 0]; inj (tF tB'); inj (tF tA)]).
Proof. vm_compute. repeat split; reflexivity. Qed.

(* the theorems applied to these instances *)
Lemma ex_wfs l : forallb (wf_tyb exC) l = true -> Forall (wf_ty exC) l.
Proof. intros E. apply Forall_forall. intros t I. apply wf_tyb_spec. rewrite forallb_forall in E. auto. Qed.

Example C06_conc_applied_accept :
  fst (ex_obs (tF tB') altsFG) = None /\ fst (ex_obs (tFun tA tB) altsMix) = None.
Proof.
  split.
  - assert (Wx : wf_ty exC (tF tB')) by (apply wf_tyb_spec; reflexivity).
    assert (Wa : Forall (wf_ty exC) altsFG) by (apply ex_wfs; reflexivity).
    assert (NE : altsFG <> []) by discriminate.
    assert (L : length altsFG + tys_depth altsFG + ty_depth (tF tB') + 10 <= 15) by (vm_compute; auto with arith).
    pose proof (C06_engine_conc exC exC_wf (tF tB') altsFG 15 [] Wx Wa NE L) as T. cbv zeta in T.
    destruct T as (T1 & _). apply T1.
    exists (tF tA). split; [now left|]. apply (subb_spec exC exC_wf); try (apply wf_tyb_spec; reflexivity).
    reflexivity.
  - assert (Wx : wf_ty exC (tFun tA tB)) by (apply wf_tyb_spec; reflexivity).
    assert (Wa : Forall (wf_ty exC) altsMix) by (apply ex_wfs; reflexivity).
    assert (NE : altsMix <> []) by discriminate.
    assert (L : length altsMix + tys_depth altsMix + ty_depth (tFun tA tB) + 10 <= 15) by (vm_compute; auto with arith).
    pose proof (C06_engine_conc exC exC_wf (tFun tA tB) altsMix 15 [] Wx Wa NE L) as T. cbv zeta in T.
    destruct T as (T1 & _). apply T1.
    exists (tFun tB' tB). split; [now left|]. apply (subb_spec exC exC_wf); try (apply wf_tyb_spec; reflexivity).
    reflexivity.
Qed.

Example C06_conc_applied_reject : fst (ex_obs (tK tA) altsFG) = Some (EConstraintViolation, 2).
Proof.
  assert (Wx : wf_ty exC (tK tA)) by (apply wf_tyb_spec; reflexivity).
  assert (Wa : Forall (wf_ty exC) altsFG) by (apply ex_wfs; reflexivity).
  assert (NE : altsFG <> []) by discriminate.
  assert (L : length altsFG + tys_depth altsFG + ty_depth (tK tA) + 10 <= 15) by (vm_compute; auto with arith).
  pose proof (C06_engine_conc exC exC_wf (tK tA) altsFG 15 [] Wx Wa NE L) as T. cbv zeta in T.
  destruct T as (T1 & _ & _ & T4).
  assert (N : fst (ex_obs (tK tA) altsFG) <> None).
  { intros E. apply T1 in E. destruct E as (T & [<-|[<-|[]]] & S);
      apply (subb_spec exC exC_wf) in S; try (apply wf_tyb_spec; reflexivity); discriminate. }
  destruct (T4 N) as [(mi & e & Em & _)|(_ & E)]; [discriminate Em|exact E].
Qed.

(* the fuel bound is not far off: the same run with fuel 6 runs out *)
Example C06_conc_fuel :
  fst (fst (run_cmds exC 6
        [CInst (mkSchema 1 (SOp Function [SVar 0; SVar 0]) [SCElim (SVar 0) (map sconc altsMix)]);
         CInst (mkSchema 0 (sconc (tFun tA tB)) []);
         CApply 0 1 true] 0 [] (empty_store []))) = Some (EFuel, 2).
Proof. vm_compute. reflexivity. Qed.
