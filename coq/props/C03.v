(* C03  Every accepted polymorphic application has a witnessing instantiation.

   Full statement (for the engine model Infer/Engine.v, any hierarchy, any
   schema, any argument sequence):
     run_cmds H fuel prog ... = (None, vals, s)  ->
     for every grounding th of the unresolved variables within their bounds,
     every apply step (f, x, r) of prog satisfies StepHolds (argument below the
     parameter, result = instantiated result), every constraint whose variables
     are all resolved holds, and no base-bounded variable is compound.
   What is proved here is the *per-instance* form: a checker that decides these
   conditions on a concrete final state, proved sound w.r.t. the declarative
   order Sub (exported below); every accepted case of every run is passed
   through it (Infer/Check.v).  The unconditional statement for the
   constraint-free fragment is C03_core_sound (Infer/Sound.v, when present);
   what is missing for constrained schemas is the invariant that every
   unfulfilled constraint is in the constraint set of each unbound variable it
   mentions, through the set-merging code of bind. *)
From Coq Require Import List Arith Bool.
Import ListNotations.
From TF Require Import Base.Hier Base.Ty Sub.Match Sub.SubSpec Infer.Store Infer.Engine
  Infer.Run Infer.Witness Infer.Check.

Theorem C03_checker_sound_partial : forall H, wf_hier H ->
  forall fuel s ths dflt steps, all_steps_ok H fuel s ths dflt steps = true ->
  forall th, In th ths -> forall st, In st steps -> StepHolds H fuel s th dflt st.
Proof. exact all_steps_ok_sound. Qed.
Print Assumptions C03_checker_sound_partial.

Theorem C03_sub_constraint_checker_sound : forall H, wf_hier H ->
  forall fuel s k, sub_constr_ok H fuel s k = true ->
  exists r t target, k_alts k = [target] /\
    ground fuel s [] (TOp Top []) (k_ref k) = Some r /\
    ground fuel s [] (TOp Top []) target = Some t /\
    Sub H r t /\ (k_strict k = true -> r <> t).
Proof. exact sub_constr_ok_sound. Qed.
Print Assumptions C03_sub_constraint_checker_sound.

Theorem C03_elim_constraint_checker_sound : forall H, wf_hier H ->
  forall fuel s k, elim_constr_ok H fuel s k = true ->
  exists r alt t, In alt (k_alts k) /\
    ground fuel s [] (TOp Top []) (k_ref k) = Some r /\
    ground fuel s [] (TOp Top []) alt = Some t /\ Sub H r t.
Proof. exact elim_constr_ok_sound. Qed.
Print Assumptions C03_elim_constraint_checker_sound.

Theorem C03_bounded_checker_sound : forall s, bounded_ok s = true ->
  forall v c t o args, nth_error (vars s) v = Some c ->
    (c_lower c <> None \/ c_upper c <> None) -> c_bound c = Some t ->
    follow s t = O o args -> args = [].
Proof. exact bounded_ok_sound. Qed.
Print Assumptions C03_bounded_checker_sound.

(* Non-vacuity and the repaired defect: (x ** x ** x) applied to A then F(A).
   H: A=5, B=6 < A, F=7 unary covariant. *)
Definition exH := mk_hier [(6,5)] [(7,[true])].
Definition sigxxx := mkSchema 1 (SOp Function [SVar 0; SOp Function [SVar 0; SVar 0]]) [].
Definition conc (t : sty) := mkSchema 0 t [].
Example C03_accepts_chain :
  (* A then B: accepted, result A, and the verified checker validates it *)
  last (run_check exH 100 50 [TOp 5 []; TOp 6 []; TOp Top []] []
         [CInst sigxxx; CInst (conc (SOp 5 [])); CApply 0 1 true;
          CInst (conc (SOp 6 [])); CApply 2 3 true]) [] = [40; 1; 1; 1; 1; 2; 0].
Proof. vm_compute. reflexivity. Qed.
Example C03_rejects_compound_after_base :
  hd [] (run_check exH 100 50 [] []
         [CInst sigxxx; CInst (conc (SOp 5 [])); CApply 0 1 true;
          CInst (conc (SOp 7 [SOp 5 []])); CApply 2 3 true]) = [1; 1; 0; 4].
Proof. vm_compute. reflexivity. Qed.
