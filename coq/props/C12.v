(* C12  A workflow's graph is the graph of its tools plugged together.

   Model      Graph/Workflow.v       add_workflow (graph.py:422-507), Workflow.target
                                     (workflow.py:79-92), on top of C08's model of add_expr
              Graph/SourceTypes.v    Workflow.source_types (workflow.py:108-133)
   Spec       Graph/WorkflowSpec.v   wf_okb (the workflows the property speaks about), tshape
                                     (application tree of a tool expression), rho / feed
              Graph/AddExprSpec.v    flow (C08: the triples prescribed for a tree)
   Proofs     Graph/WorkflowProofs.v, Graph/SourceTypes.v

   The structural theorems are about add_expr with proposed_fixes/C08.diff applied
   ([pinned := false], as in props/C08.v; on the expressions add_workflow builds the
   two wirings coincide, which the harness checks on every case) and about
   source_types with proposed_fixes/C12.diff applied; C12_source_types_pinned_refuted
   is about the loop as pinned.
   The lists [w_apps] and [w_srcs] are the iteration orders of the sets
   wf.tool_outputs and wf.sources: every theorem holds for every such order, and the
   right-hand sides do not mention it.
   Typed half (node types of the workflow graph = node types of the inlined
   expression): not modelled; checked by the harness, implementation against
   implementation, see harness/c12.py.
   Property theorems only; each is closed by [exact] of a library lemma. *)
From Coq Require Import List Arith Bool Permutation.
Import ListNotations.
From TF Require Import Base.Hier Base.Ty Sub.Match Sub.SubSpec.
From TF Require Import Graph.AddExpr Graph.AddExprSpec Graph.AddExprProofs.
From TF Require Import Graph.Workflow Graph.WorkflowSpec Graph.WorkflowProofs Graph.WorkflowInline.
From TF Require Import Graph.SourceTypes.

(* For every well-formed workflow (any number of applications, any sharing of
   sources and of intermediate results, any listing order, passthrough on or off)
   add_workflow succeeds and
   - the returned dict maps exactly the sources and the tool outputs, each to one
     node, different resources to different nodes;
   - T gives every resource its tree: a source is a leaf; the tree of a tool output
     is the application tree of the tool's expression (tshape) whose root is the
     resource's node and whose input leaves are the nodes that feed the inputs:
     the producer's node when passthrough is on or the producer is a source,
     otherwise the node of the Source object made for that input position;
   - the nodes introduced by different trees are all different, and different from
     the nodes of sources;
   - apart from tf:depends (C09) the graph consists of EXACTLY the triples C08's
     [flow] prescribes for these trees and, with passthrough off, one edge from the
     source node of each tool input that is another tool's output to the producer's
     node;
   - the tf:input marks are the nodes of the sources, the tf:output mark is the
     node of the final application. *)
Theorem C12_plugged : forall add_from add_from_r,
  add_from_ok add_from -> add_from_ok add_from_r ->
  forall pt wf, wf_okb wf = true ->
  exists res T sg tg,
    add_workflow add_from add_from_r false pt wf = Some res /\
    target wf = Some tg /\
    (forall r, In r (map fst (r_map res)) <-> In r (w_srcs wf) \/ In r (outs wf)) /\
    NoDup (map fst (r_map res)) /\ NoDup (map snd (r_map res)) /\
    (forall r, In r (map fst T) <-> In r (w_srcs wf) \/ In r (outs wf)) /\
    NoDup (map fst T) /\
    (forall r L, In (r, L) T -> rho res r = Some (lnode L)) /\
    (forall s L, In (s, L) T -> In s (w_srcs wf) -> exists n, L = LLeaf n) /\
    (forall a L, In a (w_apps wf) -> In (a_out a, L) T ->
       tshape (feed wf pt res sg a) sg (a_tx a) L) /\
    NoDup (namesT T) /\
    (forall i n, sg i = Some n -> ~ In n (namesT T)) /\
    (forall s, In s (w_srcs wf) -> sg s = rho res s) /\
    (forall t, vis t ->
       (In t (r_tr res) <-> In t (flowT T) \/
          (pt = false /\ exists a k q sn rn, In a (w_apps wf) /\ nth_error (a_ins a) k = Some q /\
             ~ In q (w_srcs wf) /\ sg (nth k (a_ind a) 0) = Some sn /\ rho res q = Some rn /\
             t = (sn, p_from, rn)))) /\
    Forall2 (fun s n => rho res s = Some n) (w_srcs wf) (r_inputs res) /\
    rho res tg = Some (r_output res).
Proof. exact add_workflow_plugged. Qed.
Print Assumptions C12_plugged.

(* Passthrough on, every tool uses all its inputs: the workflow graph is the graph of
   the single expression [inline] in which every tool input is replaced by the
   expression of the tool that produced it -- add_workflow on the workflow and add_expr
   on that expression both produce exactly the triples [flow] prescribes for an
   application tree ([shape], C08) of that one expression; the node of the final
   application is the root of the tree.  The two trees differ in the names of their
   positions, and the workflow's tree gives the copies of a shared intermediate result
   the same names (one node per resource) where add_expr, which does not memoise
   applications, gives each copy names of its own. *)
Theorem C12_inline : forall add_from add_from_r,
  add_from_ok add_from -> add_from_ok add_from_r ->
  forall wf, wf_okb wf = true -> inl_okb wf = true ->
  exists res tg e U sm0 L st',
    add_workflow add_from add_from_r false true wf = Some res /\
    target wf = Some tg /\ inline wf (wf_fuel wf) tg = Some e /\
    shape sm0 [] e U /\ lnode U = r_output res /\
    (forall t, vis t -> (In t (r_tr res) <-> In t (flow U))) /\
    add_expr add_from false e None g_empty = Some (lnode L, st') /\
    shape (srcmap (g_memo st')) [] e L /\
    (forall t, vis t -> (In t (g_tr st') <-> In t (flow L))).
Proof. exact add_workflow_vs_add_expr. Qed.
Print Assumptions C12_inline.

(* add_expr on an expression some of whose sub-expressions are already in the memo
   expr_nodes (which is how add_workflow shares the node of a resource among its
   consumers): the new triples are the flow of the application tree down to the
   memoised sub-expressions, whose nodes are reused.  Generalises C08_step to memoised
   operator applications that have internal nodes of their own. *)
Theorem C12_shared_step : forall add_from, add_from_ok add_from ->
  forall e c st, wdom (g_memo st) e = true -> WInv st -> cur_ok c st ->
  exists L st', add_expr add_from false e (Some c) st = Some (lnode L, st') /\
                PostW e c st L st'.
Proof. exact add_expr_w. Qed.
Print Assumptions C12_shared_step.

(* Workflow.source_types (repaired): for every hierarchy, when the annotated types of
   each source are pairwise comparable, the result does not depend on the order in
   which the uses are met (every permutation of the uses, hence every listing order
   of the applications) ... *)
Theorem C12_source_types_perm : forall H, wf_hier H -> forall srcs uses uses',
  Permutation uses uses' ->
  (forall s, In s srcs -> ok_annots H (annots s uses)) ->
  source_types (upd_fixed H) srcs uses = source_types (upd_fixed H) srcs uses'.
Proof. exact source_types_perm. Qed.
Print Assumptions C12_source_types_perm.

(* ... and it is: no type (left to inference over the whole workflow) for a source
   that has a use without annotation or no use at all, otherwise the least of the
   annotated types, i.e. the most general type acceptable to all annotated uses *)
Theorem C12_source_types_spec : forall H, wf_hier H -> forall srcs uses s,
  In s srcs -> ok_annots H (annots s uses) ->
  exists t, In (s, t) (source_types (upd_fixed H) srcs uses) /\
    match t with
    | None => annots s uses = [] \/ In None (annots s uses)
    | Some m => ~ In None (annots s uses) /\ In (Some m) (annots s uses) /\
                forall x, In (Some x) (annots s uses) -> Sub H m x
    end.
Proof. exact source_types_spec. Qed.
Print Assumptions C12_source_types_spec.

(* The loop as pinned violates the property: a source used once as `1 : A` and once
   without annotation gets A or no type depending on which application is listed
   first (and with A the other application may then fail to type-check). *)
Theorem C12_source_types_pinned_refuted :
  exists uses uses', Permutation uses uses' /\
    source_types (upd_pinned refute_H) [0] uses <> source_types (upd_pinned refute_H) [0] uses'.
Proof. exact source_types_pinned_refuted. Qed.
Print Assumptions C12_source_types_pinned_refuted.

(* ------------------------------------------------------------------------ *)
(* Non-vacuity *)

Example C12_ex_add_from : add_from_ok add_from_plain.
Proof. exact add_from_plain_ok. Qed.

(* sources 0, 1 (1 is used by nobody); applications, listed out of order:
     4 := k 1 2      on [3; 2]     -- 2 is a shared intermediate result
     2 := f 1        on [0]
     3 := h (g 1) 2  on [2; 0]     -- g 1 is passed as a function; source 0 is shared *)
Definition ex_a2 : tapp := mkApp 2 (TApp 11 (TOp 10 0) (TIn 0) false) [0] [12].
Definition ex_a3 : tapp :=
  mkApp 3 (TApp 24 (TApp 23 (TOp 20 1) (TApp 22 (TOp 21 2) (TIn 0) false) true) (TIn 1) false)
        [2; 0] [25; 26].
Definition ex_a4 : tapp :=
  mkApp 4 (TApp 32 (TApp 31 (TOp 30 3) (TIn 0) false) (TIn 1) false) [3; 2] [33; 34].
Definition ex_wf : wflow := mkWf [1; 0] [ex_a4; ex_a2; ex_a3].

Example C12_ex_wf : wf_okb ex_wf = true /\ inl_okb ex_wf = true /\ target ex_wf = Some 4.
Proof. repeat split; reflexivity. Qed.

(* its inlined expression:  k (h (g (f s0)) s0) (f s0), the two copies of f s0 being one object *)
Example C12_ex_inline :
  inline ex_wf (wf_fuel ex_wf) 4 =
  Some (EApp 32 (EApp 31 (EOp 30 3)
                   (EApp 24 (EApp 23 (EOp 20 1)
                               (EApp 22 (EOp 21 2) (EApp 11 (EOp 10 0) (ESrc 0) false) false) true)
                         (ESrc 0) false) false)
             (EApp 11 (EOp 10 0) (ESrc 0) false) false).
Proof. reflexivity. Qed.

(* passthrough on: five resources, five different nodes; node of 2 reused by 3 and 4 *)
Example C12_ex_run :
  exists res, add_workflow add_from_plain add_from_plain false true ex_wf = Some res /\
    r_map res = [(1, 11); (0, 0); (2, 1); (3, 3); (4, 8)] /\ r_output res = 8 /\
    r_inputs res = [11; 0] /\
    forall t, In t (r_tr res) <->
      In t [(1, p_via, 0); (1, p_from, 0);
            (3, p_via, 1); (3, p_internal, 4); (5, p_via, 2); (5, p_from, 1); (5, p_from, 4);
            (3, p_from, 5); (3, p_from, 0); (4, p_from, 0);
            (8, p_via, 3); (8, p_from, 3); (8, p_from, 1)].
Proof.
  eexists. split; [vm_compute; reflexivity|]. split; [reflexivity|]. split; [reflexivity|].
  split; [reflexivity|]. intros t. cbn. tauto.
Qed.

(* passthrough off: the inputs fed by tools become source nodes of their own *)
Example C12_ex_run_nopass :
  exists res, add_workflow add_from_plain add_from_plain false false ex_wf = Some res /\
    length (r_tr res) = 16 /\ length (r_map res) = 5.
Proof. eexists. split; [vm_compute; reflexivity|]. split; reflexivity. Qed.

(* source types: A(5) > B(6) > C(7); uses `1 : B`, `1 : A`, `1 : C` of source 0 in any
   order give C; with one use without annotation the source is left to inference *)
Definition ex_H : hier := mk_hier [(6, 5); (7, 6)] [].
Example C12_ex_H : wf_hier ex_H.
Proof.
  split.
  - intros o p. cbn. repeat (destruct o as [|o]; try discriminate; cbn); intros [= <-]; auto with arith.
  - intros o p. cbn. repeat (destruct o as [|o]; try discriminate; cbn); intros [= <-]; cbn; repeat split; discriminate.
  - split; reflexivity.
  - split; reflexivity.
  - reflexivity.
Qed.
Example C12_ex_types :
  source_types (upd_fixed ex_H) [0] [(0, Some (Ty.TOp 6 [])); (0, Some (Ty.TOp 5 [])); (0, Some (Ty.TOp 7 []))]
    = [(0, Some (Ty.TOp 7 []))] /\
  source_types (upd_fixed ex_H) [0] [(0, Some (Ty.TOp 6 [])); (0, None); (0, Some (Ty.TOp 7 []))]
    = [(0, None)].
Proof. split; reflexivity. Qed.
