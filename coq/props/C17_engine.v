(* C17 (engine half)  The inference engine fails only with its declared errors:
   it never reaches an internal assertion.   C16 (freshness, allocation part).

   Model: Infer/Engine.v (every Python `assert` is [ECrash site]: 1 bind twice,
   4 inform on a bound variable, 5 elimination constraint not normalized,
   6 subtype constraint without exactly one target; fuel exhaustion is [EFuel])
   driven by the command programs of Infer/Run.v.
   Proof: Infer/Inv.v - a store invariant preserved by every engine operation,
   on success and on failure, by one induction on fuel over the conjunction of
   the specifications of unify/bind/above/below/check_constraints/fulfill/
   minimize/fix_ty, then instance, apply, run_cmd, run_cmds.

   The invariant comes in two strengths, [invb false] = [core] and
   [invb true] = [inv] = core + wsc:
     core: (b) binding chains are acyclic, so [follow] ends in an unbound
              variable or an operation (C17_follow_unbound);
           (c) a lower bound is never Top, an upper bound never Bottom;
           (a') every constraint id in a constraint set exists;
           (d) a subtype constraint has exactly one target.
     wsc:  (a) every variable index in a binding, a constraint term or a value
              is < length (vars s); every c_cs < length (csets s);
           (b) full acyclicity: every variable is well-founded for "occurs in
              the binding of" (wft; the accessibility form of the rank
              condition).
   [core] is all that crash-freedom needs and it holds for EVERY program, so
   C17_engine_nocrash has no side condition.  [wsc] needs a well-scoped
   program (prog_wf): with an out-of-range schematic variable the model really
   builds a cyclic binding (val/nth default to V 0).

   Not proved here: termination of the constrained engine (no fuel bound);
   the frame part of C16 (cells unreachable from the arguments are unchanged). *)
From Coq Require Import List Arith Bool.
Import ListNotations.
From TF Require Import Base.Hier Base.Ty Infer.Store Infer.Engine Infer.Run Infer.Inv.

(* ---- C17: no internal assertion, for every program ---- *)
Theorem C17_engine_nocrash : forall H fuel sc prog e i vals s,
  run_cmds H fuel prog 0 [] (empty_store sc) = (Some (e, i), vals, s) ->
  forall site, e <> ECrash site.
Proof. exact engine_nocrash. Qed.
Print Assumptions C17_engine_nocrash.

(* the store left behind by any run, failed or not, satisfies the core invariant *)
Theorem C17_engine_core : forall H fuel sc prog r vals s,
  run_cmds H fuel prog 0 [] (empty_store sc) = (r, vals, s) -> core s.
Proof. exact engine_core. Qed.
Print Assumptions C17_engine_core.

(* well-scoped programs: the full invariant, and all values in scope *)
Theorem C17_engine_inv : forall H fuel sc prog r vals s, prog_wf 0 prog ->
  run_cmds H fuel prog 0 [] (empty_store sc) = (r, vals, s) ->
  inv s /\ Forall (tsc (length (vars s))) vals.
Proof. exact engine_inv. Qed.
Print Assumptions C17_engine_inv.

(* from any store satisfying the invariant (either strength) *)
Theorem C17_run_cmds_preserves : forall H b fuel cs i vals s, invb b s ->
  Forall (sct b s) vals -> (b = true -> prog_wf (length vals) cs) ->
  invb b (snd (run_cmds H fuel cs i vals s)) /\
  ext s (snd (run_cmds H fuel cs i vals s)) /\
  no_crash (fst (fst (run_cmds H fuel cs i vals s))) /\
  Forall (sct b (snd (run_cmds H fuel cs i vals s))) (snd (fst (run_cmds H fuel cs i vals s))).
Proof. exact run_cmds_ok. Qed.
Print Assumptions C17_run_cmds_preserves.

(* ---- the invariant makes [follow] total: it ends in an unbound variable or
   an operation (nb) ---- *)
Theorem C17_follow_unbound : forall b s t, invb b s -> nb s (follow s t).
Proof. exact (fun b s t => @follow_unbound b s t). Qed.
Print Assumptions C17_follow_unbound.

(* ---- preservation by each operation.  [ok b s m Q s] unfolds to
     match m s with
     | MOk a s' => invb b s' /\ ext s s' /\ Q a s'
     | MEr e s' => invb b s' /\ ext s s' /\ forall n, e <> ECrash n
     end
   [sct b s t] / [scv b s v] are "b = true -> t / v is in scope of s";
   [noccb b s v t] is "b = true -> t = V v \/ v does not occur in t". ---- *)
Theorem C17_preserve_core_ops : forall H b fuel, specs H b fuel.
Proof. exact specs_all. Qed.
Print Assumptions C17_preserve_core_ops.

Theorem C17_preserve_unify : forall H b fuel sub skb skw x y s, invb b s -> sct b s x -> sct b s y ->
  ok b s (unify H fuel sub skb skw x y) (fun _ _ => True) s.
Proof. exact unify_ok. Qed.

Theorem C17_preserve_bind : forall H b fuel v t s, invb b s ->
  c_bound (cell_of s v) = None -> nb s t -> scv b s v -> sct b s t -> noccb b s v t ->
  ok b s (bind H fuel v t) (fun _ _ => True) s.
Proof. exact bind_ok. Qed.

Theorem C17_preserve_above : forall H b fuel v new s, invb b s ->
  (new = Top -> c_bound (cell_of s v) = None) -> scv b s v ->
  ok b s (above H fuel v new) (fun _ _ => True) s.
Proof. exact above_ok. Qed.

Theorem C17_preserve_below : forall H b fuel v new s, invb b s ->
  (new = Bottom -> c_bound (cell_of s v) = None) -> scv b s v ->
  ok b s (below H fuel v new) (fun _ _ => True) s.
Proof. exact below_ok. Qed.

Theorem C17_preserve_check_constraints : forall H b fuel v s, invb b s ->
  ok b s (check_constraints H fuel v) (fun _ _ => True) s.
Proof. exact cc_ok. Qed.

Theorem C17_preserve_fulfill : forall H b fuel c s, invb b s -> c < length (constrs s) ->
  ok b s (fulfill H fuel c) (fun _ _ => True) s.
Proof. exact fulfill_ok. Qed.

(* minimize leaves the constraint normalized: this is why the `assert
   normalized` of EliminationConstraint.fulfill cannot fail *)
Theorem C17_preserve_minimize : forall H b fuel c s, invb b s -> k_elim (constr_of s c) = true ->
  ok b s (minimize H fuel c) (fun _ s' => Forall (nb s') (constr_terms (constr_of s' c))) s.
Proof. exact minimize_ok. Qed.

Theorem C17_preserve_fix : forall H b fuel pl t s, invb b s -> sct b s t ->
  ok b s (fix_ty H fuel pl t) (fun r s' => nb s' r /\ sct b s' r) s.
Proof. exact fix_ok. Qed.

Theorem C17_preserve_instance : forall H b fuel sc s, invb b s -> (b = true -> schema_wf sc) ->
  ok b s (instance H fuel sc) (fun r s' => sct b s' r) s.
Proof. exact instance_ok. Qed.

Theorem C17_preserve_apply : forall H b fuel f x fixb s, invb b s -> sct b s f -> sct b s x ->
  ok b s (apply H fuel f x fixb) (fun r s' => sct b s' r) s.
Proof. exact apply_ok. Qed.

Theorem C17_preserve_run_cmd : forall H b fuel c vals s, invb b s -> Forall (sct b s) vals ->
  (b = true -> cmd_wf (length vals) c) ->
  ok b s (run_cmd H fuel c vals) (vals_post b c vals) s.
Proof. exact run_cmd_ok. Qed.
Print Assumptions C17_preserve_run_cmd.

(* the pure readers can only fail by running out of fuel *)
Theorem C17_readers_only_fuel : forall H fuel s,
  (forall sub aw x y e, match_f H fuel s sub aw x y = Er e -> e = EFuel) /\
  (forall x y e, occurs_f H fuel s x y = Er e -> e = EFuel) /\
  (forall t acc e, vars_f fuel s t acc = Er e -> e = EFuel) /\
  (forall todo seen e, closure_f fuel s todo seen = Er e -> e = EFuel).
Proof. exact readers_only_fuel. Qed.
Print Assumptions C17_readers_only_fuel.

(* a negative occurs check is sound: the variable does not occur (this is what
   keeps the bindings acyclic) *)
Theorem C17_occurs_sound : forall H fuel s a v, core s -> c_bound (cell_of s v) = None ->
  occurs_f H fuel s a (V v) = Ok false -> nocc s v a.
Proof. exact occurs_false_nocc. Qed.
Print Assumptions C17_occurs_sound.

(* ---- termination of the pure readers.  [dle s t n]: looking through
   bindings, t has operator-nesting depth <= n.  With more fuel than the depth
   of the followed terms match / variables / the occurs check return a value;
   under the full invariant every term has such a depth.  (No fuel bound is
   proved for the constrained engine itself.) ---- *)
Theorem C17_term_match : forall H fuel s sub aw a b n, dle s a n -> dle s b n -> n < fuel ->
  exists r, match_f H fuel s sub aw a b = Ok r.
Proof. exact match_f_fuel. Qed.
Print Assumptions C17_term_match.

Theorem C17_term_occurs : forall H fuel s a b n m, dle s a n -> dle s b m -> n + m + 1 < fuel ->
  exists r, occurs_f H fuel s a b = Ok r.
Proof. exact occurs_f_fuel. Qed.
Print Assumptions C17_term_occurs.

Theorem C17_term_vars : forall fuel s t acc n, dle s t n -> n < fuel ->
  exists r, vars_f fuel s t acc = Ok r.
Proof. exact vars_f_fuel. Qed.
Print Assumptions C17_term_vars.

Theorem C17_term_readers : forall H s, inv s -> forall a b, exists N, forall fuel, N < fuel ->
  (forall sub aw, exists r, match_f H fuel s sub aw a b = Ok r) /\
  (exists r, occurs_f H fuel s a b = Ok r) /\
  (forall acc, exists r, vars_f fuel s a acc = Ok r).
Proof. exact readers_terminate. Qed.
Print Assumptions C17_term_readers.

(* ---- C16 (freshness): instance and apply only allocate at the end of the
   store: every cell, constraint set and constraint that existed before still
   exists, constraints keep their kind, and an existing binding is never
   overwritten (ext); on success and on failure alike ---- *)
Theorem C16_fresh : forall H fuel s, core s ->
  (forall sc, let s' := mstore (instance H fuel sc s) in
     length (vars s) <= length (vars s') /\ length (csets s) <= length (csets s') /\
     length (constrs s) <= length (constrs s') /\
     forall v t, c_bound (cell_of s v) = Some t -> c_bound (cell_of s' v) = Some t) /\
  (forall f x fixb, let s' := mstore (apply H fuel f x fixb s) in
     length (vars s) <= length (vars s') /\ length (csets s) <= length (csets s') /\
     length (constrs s) <= length (constrs s') /\
     forall v t, c_bound (cell_of s v) = Some t -> c_bound (cell_of s' v) = Some t).
Proof. exact fresh_alloc. Qed.
Print Assumptions C16_fresh.

(* ---- non-vacuity ---- *)
(* the tutorial operator  a ** a [a << {Qlt, C(Qlt)}]  applied to Qlt
   (Qlt=5, C=6 unary covariant) is a well-scoped program ... *)
Definition qH := mk_hier [] [(6,[true])].
Definition tut : list cmd :=
  [CInst (mkSchema 1 (SOp Function [SVar 0; SVar 0])
            [SCElim (SVar 0) [SOp 5 []; SOp 6 [SOp 5 []]]]);
   CInst (mkSchema 0 (SOp 5 []) []); CApply 0 1 true].
Example C17_tut_wf : prog_wf 0 tut.
Proof. repeat (constructor; try (cbn; auto)). Qed.
(* ... it allocates variables, a constraint and bindings (so the invariant is
   about a non-trivial store) and succeeds *)
Example C17_tut_runs :
  let '(r, vals, s) := run_cmds qH 400 tut 0 [] (empty_store []) in
  (r, length vals, length (vars s), length (constrs s),
   length (filter (fun c => match c_bound c with Some _ => true | None => false end) (vars s)))
  = (None, 3, 1, 1, 1).
Proof. vm_compute. reflexivity. Qed.
(* ... so the full invariant holds of its final store *)
Example C17_inv_holds_on_tut : inv (snd (run_cmds qH 400 tut 0 [] (empty_store []))).
Proof.
  destruct (run_cmds qH 400 tut 0 [] (empty_store [])) as [[r vals] s] eqn:R.
  exact (proj1 (C17_engine_inv qH 400 [] tut r vals s C17_tut_wf R)).
Qed.
(* a declared error is reported as such (the error branch of the theorems is inhabited) *)
Example C17_declared_error :
  fst (fst (run_cmds qH 400
     [CInst (mkSchema 0 (SOp Function [SOp 5 []; SOp 5 []]) []);
      CInst (mkSchema 0 (SOp 6 [SOp 5 []]) []); CApply 0 1 true] 0 [] (empty_store [])))
  = Some (ETypeMismatch, 2).
Proof. vm_compute. reflexivity. Qed.
(* an ill-scoped schema (SVar 0 with no schematic variable, read as V 0 by the
   model's default) cannot crash either, but the fresh variable allocated for
   C(_) is cell 0 itself and the model builds the cyclic binding v0 := C(v0)
   and runs out of fuel: wsc genuinely needs prog_wf.  (No Python object
   corresponds to an out-of-range variable.) *)
Example C17_ill_scoped_cycle :
  let '(r, _, s) := run_cmds qH 400
     [CInst (mkSchema 0 (SVar 0) [SCSub (SVar 0) (SOp 6 [SOp 5 []]) false])] 0 [] (empty_store []) in
  (r, c_bound (cell_of s 0)) = (Some (EFuel, 0), Some (O 6 [V 0])).
Proof. vm_compute. reflexivity. Qed.
