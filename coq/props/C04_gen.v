(* C04 (operators with ARBITRARY constraints)  Every expression that parses is
   well-typed at every application node, every annotation holds, the re-fixed
   tree is well typed, and every operator leaf is an instance of its declared
   signature - the UNCONDITIONAL statement for expressions whose operator
   signatures carry

        r <= t   r < t        SCSub r t strict
        r << [t1, ..., tn]    SCElim r [t1; ...; tn]

   with r, t, t1..tn ANY well-scoped, arity-correct schematic types (schematic
   variables of the signature, wildcards `_`, base, compound and function
   types), in any number and mixture ([scg], class [progG] of props/C03_gen.v):
   e.g.  keys : a ** C(b) [a << [C(b), R(b, _)]].
   Lifts props/C04_core.v with props/C03_gen.v.  Proofs: Infer/ExprSoundGen.v.

   Expression trees [expr], [compile], [prog_of], [nodes], [leaves], [occ],
   [xexpr], [xprog], [xsem], [nsem]: as in props/C04_core.v.
   [leaves_okG H e] / [xokG H k e]: every operator leaf has a well-scoped
   arity-correct body and constraints satisfying [scg]; sources, inputs and
   annotations as before.  [leaves_okE] / [leaves_okS] / [leaves_ok] (and
   [xokE] / [xokS] / [xok]) are special cases: C04_gen_generalises.

   C04_gen_compile_wf   the compiled program lies in class [progG] of C03_gen
                        and is well-scoped.
   C04_gen              for every accepted expression:
     (a) under EVERY grounding th satisfying the final store every application
         node has den f = Function [a; b], Sub (den x) a, den node = b (or
         den f = Top = den node)                          - C03_gen_sound;
     (b) for every leaf (k, sch) there is n0 - the number of the first fresh
         variable of the leaf's own instantiation, listed for k in [prog_vars]
         (a function of k: C04_gen_vars_fun) - such that, with
         env = [V n0; ...; V (n0 + s_n sch - 1)] and sigma i = den th (env_i),
         under EVERY satisfying grounding the leaf's value denotes an instance
         of its declared body under sigma ([sinst]; = [ssubst] sigma body when
         the body has no wildcard)          - clause (b1) of C04_elim, verbatim.
   C04_gen_instance     per operation, why (b) holds whatever the constraints
                        are: the body is evaluated before the constraints are
                        created; creating / fulfilling them and the final fix
                        only refine the store ([le] of C03_gen: a grounding of
                        the later store is a grounding of the earlier one), so
                        the instance denotes [sinst sigma body] under every
                        grounding of the store after [instance] - and of every
                        later store.
   C04_gen_prog_sound   for every accepted [progG] program (CInst / CApply /
                        CUnify subtype mode / CFix): application steps, every
                        CInst value is an instance of its body, every unify
                        (a, b) has Sub (den a) (den b), every fix result
                        denotes what its argument denotes, and (b) for every
                        CInst.
   C04_gen_full         the whole program harness/c04.py compiles (numbered
                        inputs, annotations `e : T`, typed-source
                        self-unification, data operators, the fix traversal of
                        Expr.fix) over operators with arbitrary constraints
                        ([xokG]): inputs are instances of their declared types,
                        [xsem] (application nodes, operator leaves, sources,
                        annotations: Sub (den e) (den T)), the tree after
                        Expr.fix well typed with the same root denotation -
                        C04_elim_full's first clause, verbatim - and (b) for
                        every CInst and every operator leaf ([xleaves]).
   C04_gen_annotations  the annotation clause of [xsem] as a list: for every
                        annotated sub-expression `e : T` ([xanns]: value index
                        of e, value index of the instance of T) the instance
                        of T is an instance of T, Sub (den e) (den T-instance),
                        and Sub (den e) T itself when T is closed and
                        wildcard-free.
   C04_gen_satisfiable / C04_gen_full_satisfiable
                        an accepted expression has a satisfying grounding.

   NOT claimed here: that the declared constraints hold of the leaf's
   instantiation (clauses (b2)/(b3) of C04_sub / C04_elim: proved there for
   subtype constraints with a base target and elimination constraints with
   base alternatives on a bare schematic variable; for compound references,
   alternatives with variables or wildcards and compound targets this is the
   open part of C03 (iii)).  Everything else of C04 is claimed for the whole
   class.  The statements are about the model of the construction sequence,
   tied to Language.parse_expr / Expr.fix by the correspondence check. *)
From Coq Require Import List Arith Bool.
Import ListNotations.
From TF Require Import Base.Hier Base.Ty Sub.SubSpec Infer.Store Infer.Engine Infer.Run
  Infer.Witness Infer.Check Infer.Inv Infer.Sound Infer.SchedIndep Infer.SoundSub
  Infer.SoundElimS Infer.SoundElimK Infer.SoundElim Infer.ExprSound Infer.ExprSoundSub
  Infer.ExprSoundElim Infer.SoundGen Infer.ExprSoundGen.

(* ---- the classes, by unfolding ---- *)
Example C04_gen_reading : forall H,
  (forall sc, leaves_okG H (EOp sc) =
     (styg H (s_n sc) (s_body sc) /\ Forall (scg H (s_n sc)) (s_constrs sc))) /\
  (forall t, leaves_okG H (ESrc t) = styg H (sbound t) t) /\
  (forall f x, leaves_okG H (EApp f x) = (leaves_okG H f /\ leaves_okG H x)) /\
  (forall n r t st, scg H n (SCSub r t st) = (styg H n r /\ styg H n t)) /\
  (forall n r alts, scg H n (SCElim r alts) = (styg H n r /\ Forall (styg H n) alts)) /\
  (forall th env i, sig_of th env i = den th (nth i env (V 0))) /\
  (forall fuel sc prog, prog_vars H fuel sc prog = inst_trace H fuel prog [] (empty_store sc)).
Proof. intros. repeat split. Qed.

Theorem C04_gen_generalises : forall H e,
  (leaves_okE H e -> leaves_okG H e) /\
  (leaves_okS H e -> leaves_okG H e) /\
  (leaves_ok H e -> leaves_okG H e).
Proof.
  intros H e. split; [apply leaves_okE_okG|split; [apply leaves_okS_okG|apply leaves_ok_okG]].
Qed.
Print Assumptions C04_gen_generalises.

(* ---- (1) the compiled program is in the class ---- *)
Theorem C04_gen_compile_wf : forall H e, leaves_okG H e ->
  progG H 0 (prog_of e) /\ prog_wf 0 (prog_of e).
Proof. exact compile_wfG. Qed.
Print Assumptions C04_gen_compile_wf.

(* ---- (2) the main theorem ---- *)
Theorem C04_gen : forall H, wf_hier H ->
  forall e fuel sc vals s, leaves_okG H e ->
  run_cmds H fuel (prog_of e) 0 [] (empty_store sc) = (None, vals, s) ->
  (* (a) application nodes *)
  (forall th, sat H th s -> forall f x r, In (f, x, r) (nodes e 0) ->
     (exists a b, den th (val vals f) = TOp Function [a; b] /\
                  Sub H (den th (val vals x)) a /\ den th (val vals r) = b) \/
     (den th (val vals f) = TOp Top [] /\ den th (val vals r) = TOp Top [])) /\
  (* (b) leaves: the leaf is the instance of its signature under its own variables *)
  (forall k sch, In (k, sch) (leaves e 0) ->
     exists n0, In (k, n0) (prog_vars H fuel sc (prog_of e)) /\
       let env := map V (seq n0 (s_n sch)) in
       forall th, sat H th s ->
         (forall i, wf_ty H (den th (nth i env (V 0)))) /\
         sinst H (fun i => den th (nth i env (V 0))) (s_body sch) (den th (val vals k)) /\
         (nowild (s_body sch) = true ->
            den th (val vals k) = ssubst (fun i => den th (nth i env (V 0))) (s_body sch))).
Proof. exact expr_gen. Qed.
Print Assumptions C04_gen.

(* the same, quantified over the sub-expression occurrences *)
Theorem C04_gen_occ : forall H, wf_hier H ->
  forall e fuel sc vals s, leaves_okG H e ->
  run_cmds H fuel (prog_of e) 0 [] (empty_store sc) = (None, vals, s) ->
  (forall th, sat H th s -> forall f x m, occ e 0 (EApp f x) m ->
     let tf := den th (val vals (vidx f m)) in
     let tx := den th (val vals (vidx x (m + size f))) in
     let tr := den th (val vals (vidx (EApp f x) m)) in
     (exists a b, tf = TOp Function [a; b] /\ Sub H tx a /\ tr = b) \/
     (tf = TOp Top [] /\ tr = TOp Top [])) /\
  (forall g m sch, occ e 0 g m -> leaf_schema g = Some sch ->
     exists n0, In (m, n0) (prog_vars H fuel sc (prog_of e)) /\ leaf_semG H n0 s vals m sch).
Proof.
  intros H W e fuel sc vals s L R. destruct (expr_gen H W e fuel sc vals s L R) as (A & B). split.
  - intros th S f x m Oc. cbv zeta. apply (A th S). apply nodes_occ. exists f, x, m. auto.
  - intros g m sch Oc E. apply B. apply leaves_occ. exists g. auto.
Qed.
Print Assumptions C04_gen_occ.

(* the value index determines n0 *)
Theorem C04_gen_vars_fun : forall H e fuel sc, leaves_okG H e ->
  forall k n0 n0', In (k, n0) (prog_vars H fuel sc (prog_of e)) ->
    In (k, n0') (prog_vars H fuel sc (prog_of e)) -> n0 = n0'.
Proof.
  intros H e fuel sc L. rewrite prog_of_code.
  apply (inst_trace_funG H fuel (code e 0) [] (empty_store sc)). apply code_progG. exact L.
Qed.
Print Assumptions C04_gen_vars_fun.

(* per operation: an instance denotes its body under the substitution given by
   its own fresh variables, whatever its constraints are - in the store after
   the instance, hence (le) in every later store *)
Theorem C04_gen_instance : forall H, wf_hier H -> forall fuel sc s r s',
  JG H s -> styg H (s_n sc) (s_body sc) -> Forall (scg H (s_n sc)) (s_constrs sc) ->
  instance H fuel sc s = MOk r s' ->
  let env := map V (seq (length (vars s)) (s_n sc)) in
  forall th, sat H th s' ->
    (forall i, wf_ty H (den th (nth i env (V 0)))) /\
    sinst H (fun i => den th (nth i env (V 0))) (s_body sc) (den th r).
Proof. exact instance_instG. Qed.
Print Assumptions C04_gen_instance.

Theorem C04_gen_later_store : forall H s s' th,
  (le H s s' /\ fr H s s') -> sat H th s' -> sat H th s.
Proof. exact lefG_sat. Qed.

Theorem C04_gen_satisfiable : forall H, wf_hier H ->
  forall e fuel sc vals s, leaves_okG H e ->
  run_cmds H fuel (prog_of e) 0 [] (empty_store sc) = (None, vals, s) ->
  exists th, sat H th s.
Proof.
  intros H W e fuel sc vals s L R.
  destruct (expr_gen_satisfiable H W e fuel sc vals s L R) as (th & S & _). exists th. exact S.
Qed.
Print Assumptions C04_gen_satisfiable.

(* ---------- part 2: all programs of the class; inputs, annotations, fix traversal ---------- *)
Example C04_gen_full_reading : forall H k,
  (forall sc d, xokG H k (XOp sc d) =
     (styg H (s_n sc) (s_body sc) /\ Forall (scg H (s_n sc)) (s_constrs sc))) /\
  (forall t, xokG H k (XSrc t) = styg H (sbound t) t) /\
  (forall i, xokG H k (XIn i) = (i < k)) /\
  (forall f x, xokG H k (XApp f x) = (xokG H k f /\ xokG H k x)) /\
  (forall e T, xokG H k (XAnn e T) = (xokG H k e /\ styg H (sbound T) T)) /\
  (forall n0 s vals k sch, leaf_semG H n0 s vals k sch =
     let env := map V (seq n0 (s_n sch)) in
     forall th, sat H th s ->
       (forall i, wf_ty H (sig_of th env i)) /\
       sinst H (sig_of th env) (s_body sch) (den th (val vals k)) /\
       (nowild (s_body sch) = true -> den th (val vals k) = ssubst (sig_of th env) (s_body sch))) /\
  (forall f x n, xanns (XApp f x) n = xanns f n ++ xanns x (snd (xcompile f n))) /\
  (forall e T n, xanns (XAnn e T) n =
     xanns e n ++ [(nval (snd (fst (xcompile e n))), snd (xcompile e n), T)]) /\
  (forall sc d n, xanns (XOp sc d) n = []) /\ (forall t n, xanns (XSrc t) n = []) /\
  (forall i n, xanns (XIn i) n = []).
Proof. intros. repeat split. Qed.

Theorem C04_gen_prog_sound : forall H, wf_hier H ->
  forall fuel sc prog vals s, progG H 0 prog ->
  run_cmds H fuel prog 0 [] (empty_store sc) = (None, vals, s) ->
  (forall th, sat H th s ->
     (forall f x r, In (f, x, r) (steps_of prog 0) ->
        (exists a b, den th (val vals f) = TOp Function [a; b] /\
                     Sub H (den th (val vals x)) a /\ den th (val vals r) = b) \/
        (den th (val vals f) = TOp Top [] /\ den th (val vals r) = TOp Top [])) /\
     (forall k sch, In (k, sch) (insts_of prog 0) ->
        exists sigma, (forall i, wf_ty H (sigma i)) /\ sinst H sigma (s_body sch) (den th (val vals k))) /\
     (forall a b, In (a, b) (unifs_of prog) -> Sub H (den th (val vals a)) (den th (val vals b))) /\
     (forall a r, In (a, r) (fixes_of prog 0) -> den th (val vals r) = den th (val vals a))) /\
  (forall k sch, In (k, sch) (insts_of prog 0) ->
     exists n0, In (k, n0) (prog_vars H fuel sc prog) /\ leaf_semG H n0 s vals k sch).
Proof.
  intros H W fuel sc prog vals s P R. split.
  - intros th S. exact (prog_sem_gen H W fuel sc prog vals s P R th S).
  - exact (prog_leaves_gen H W fuel sc prog vals s P R).
Qed.
Print Assumptions C04_gen_prog_sound.

Theorem C04_gen_full_compile_wf : forall H inputs e,
  Forall (fun t => styg H (sbound t) t) inputs -> xokG H (length inputs) e ->
  progG H 0 (xprog inputs e) /\ prog_wf 0 (xprog inputs e).
Proof.
  intros H inputs e Fi K. pose proof (xprog_okG H inputs e Fi K) as P.
  split; [exact P|apply (progG_wf H); exact P].
Qed.
Print Assumptions C04_gen_full_compile_wf.

Theorem C04_gen_full_generalises : forall H k e,
  (xokE H k e -> xokG H k e) /\ (xokS H k e -> xokG H k e) /\ (xok H k e -> xokG H k e).
Proof. intros H k e. split; [apply xokE_okG|split; [apply xokS_okG|apply xok_okG]]. Qed.
Print Assumptions C04_gen_full_generalises.

Theorem C04_gen_full : forall H, wf_hier H ->
  forall inputs e fuel sc vals s,
  Forall (fun t => styg H (sbound t) t) inputs -> xokG H (length inputs) e ->
  run_cmds H fuel (xprog inputs e) 0 [] (empty_store sc) = (None, vals, s) ->
  (* as C04_full / C04_elim_full *)
  (forall th, sat H th s ->
     let k := length inputs in
     let '(cs, nd, n1) := xcompile e k in
     (forall i t, nth_error inputs i = Some t -> is_inst H th (src_schema t) (val vals i)) /\
     xsem H th vals e k /\ nsem H th vals nd /\
     nsem H th vals (fst (fixed nd n1)) /\
     den th (val vals (nval (fst (fixed nd n1)))) = den th (val vals (nval nd))) /\
  (* every CInst of the program (inputs, sources, annotations, operators) *)
  (forall k sch, In (k, sch) (insts_of (xprog inputs e) 0) ->
     exists n0, In (k, n0) (prog_vars H fuel sc (xprog inputs e)) /\ leaf_semG H n0 s vals k sch) /\
  (* in particular every operator leaf of the tree *)
  (forall k sch, In (k, sch) (xleaves e (length inputs)) ->
     exists n0, In (k, n0) (prog_vars H fuel sc (xprog inputs e)) /\ leaf_semG H n0 s vals k sch).
Proof. exact xexpr_gen. Qed.
Print Assumptions C04_gen_full.

(* every annotated sub-expression `e : T` *)
Theorem C04_gen_annotations : forall H, wf_hier H ->
  forall inputs e fuel sc vals s,
  Forall (fun t => styg H (sbound t) t) inputs -> xokG H (length inputs) e ->
  run_cmds H fuel (xprog inputs e) 0 [] (empty_store sc) = (None, vals, s) ->
  forall th, sat H th s ->
  forall a b T, In (a, b, T) (xanns e (length inputs)) ->
    (exists sigma, (forall i, wf_ty H (sigma i)) /\ sinst H sigma T (den th (val vals b))) /\
    Sub H (den th (val vals a)) (den th (val vals b)) /\
    (sbound T = 0 -> nowild T = true -> Sub H (den th (val vals a)) (sty_ty T)).
Proof. exact xexpr_gen_anns. Qed.
Print Assumptions C04_gen_annotations.

Theorem C04_gen_full_satisfiable : forall H, wf_hier H ->
  forall inputs e fuel sc vals s,
  Forall (fun t => styg H (sbound t) t) inputs -> xokG H (length inputs) e ->
  run_cmds H fuel (xprog inputs e) 0 [] (empty_store sc) = (None, vals, s) ->
  exists th, sat H th s.
Proof.
  intros H W inputs e fuel sc vals s Fi K R.
  destruct (xexpr_gen_satisfiable H W inputs e fuel sc vals s Fi K R) as (th & S & _). exists th. exact S.
Qed.
Print Assumptions C04_gen_full_satisfiable.

(* ---------- non-vacuity ---------- *)
(* Ord = 5, Obj = 6, Nom = 7 < Ord; C = 8 unary covariant, R = 9 binary covariant *)
Definition gH := mk_hier [(7,5)] [(8,[true]); (9,[true;true])].
Example gH_wf : wf_hier gH.
Proof.
  split.
  - intros o p. cbn. repeat (destruct o as [|o]; try discriminate; cbn); intros [= <-]; auto with arith.
  - intros o p. cbn. repeat (destruct o as [|o]; try discriminate; cbn); intros [= <-]; cbn; repeat split; discriminate.
  - split; reflexivity.
  - split; reflexivity.
  - reflexivity.
Qed.

Ltac styg_tac := repeat (constructor; cbn; auto with arith).

(* keys : a ** C(b) [a << [C(b), R(b, _)]]      size : C(x) ** Ord *)
Definition keys := mkSchema 2 (SOp Function [SVar 0; SOp 8 [SVar 1]])
  [SCElim (SVar 0) [SOp 8 [SVar 1]; SOp 9 [SVar 1; SWild]]].
Definition size' := mkSchema 1 (SOp Function [SOp 8 [SVar 0]; SOp 5 []]) [].

(* (a)  size (keys (- : R(Ord, Obj))) *)
Definition e1 := EApp (EOp size') (EApp (EOp keys) (ESrc (SOp 9 [SOp 5 []; SOp 6 []]))).

Example e1_okG : leaves_okG gH e1.
Proof. cbn [leaves_okG e1 keys size' s_n s_body s_constrs]. repeat split; styg_tac. Qed.

(* ... outside the class of C04_elim: the alternatives are compound and contain
   a variable / a wildcard *)
Example e1_not_okE : ~ leaves_okE gH e1.
Proof.
  intros (_ & (_ & Pc) & _). cbn [s_constrs keys] in Pc.
  inversion Pc as [|? ? P1 _]; subst. destruct P1 as [P1|P1]; cbn in P1; [exact P1|].
  destruct P1 as (_ & l & _ & E). destruct l as [|b l]; discriminate.
Qed.

Example e1_prog : prog_of e1 =
  [CInst size'; CInst keys; CInst (mkSchema 0 (SOp 9 [SOp 5 []; SOp 6 []]) []);
   CApply 1 2 true; CApply 0 3 true].
Proof. reflexivity. Qed.

Example e1_nodes_leaves : nodes e1 0 = [(1, 2, 3); (0, 3, 4)] /\ map fst (leaves e1 0) = [0; 1; 2].
Proof. split; reflexivity. Qed.

Definition e1_run := Eval vm_compute in run_cmds gH 200 (prog_of e1) 0 [] (empty_store []).
Definition e1_vals := snd (fst e1_run).
Definition e1_s := snd e1_run.

Example e1_accepted : run_cmds gH 200 (prog_of e1) 0 [] (empty_store []) = (None, e1_vals, e1_s).
Proof. vm_compute. reflexivity. Qed.

(* size's variable is V 0, keys' variables are V 1, V 2; V 3 is the wildcard of
   the alternative R(b, _) *)
Example e1_state :
  prog_vars gH 200 [] (prog_of e1) = [(0, 0); (1, 1); (2, 4)] /\
  e1_vals = [O Function [O 8 [V 0]; O 5 []]; O Function [V 1; O 8 [V 2]]; O 9 [O 5 []; O 6 []];
             O 8 [V 2]; O 5 []] /\
  map (fun c => (c_bound c, c_lower c, c_upper c)) (vars e1_s) =
    [(None, Some 5, None); (Some (O 9 [O 5 []; O 6 []]), None, None);
     (Some (O 5 []), Some 5, None); (None, Some 6, None)] /\
  map (fun k => (k_elim k, k_ref k, k_alts k, k_done k)) (constrs e1_s) =
    [(true, O 9 [O 5 []; O 6 []], [O 9 [V 2; V 3]], true)].
Proof. vm_compute. repeat split. Qed.

(* the theorem applied: under EVERY satisfying grounding the leaf keys denotes
   its body under a := R(Ord, Obj), b := Ord; both application nodes are well typed
   and the root has type Ord *)
Example e1_holds : forall th, sat gH th e1_s ->
  den th (val e1_vals 1) = TOp Function [TOp 9 [TOp 5 []; TOp 6 []]; TOp 8 [TOp 5 []]] /\
  (exists a, den th (val e1_vals 1) = TOp Function [a; den th (val e1_vals 3)] /\
             Sub gH (den th (val e1_vals 2)) a) /\
  (exists a, den th (val e1_vals 0) = TOp Function [a; TOp 5 []] /\
             Sub gH (den th (val e1_vals 3)) a /\ den th (val e1_vals 4) = TOp 5 []).
Proof.
  intros th S.
  destruct (C04_gen gH gH_wf e1 200 [] e1_vals e1_s e1_okG e1_accepted) as (A & B).
  split; [|split].
  - destruct (B 1 keys) as (n0 & Hn0 & Lf); [right; left; reflexivity|].
    rewrite (proj1 e1_state) in Hn0.
    assert (n0 = 1) as ->.
    { destruct Hn0 as [E|[E|[E|[]]]]; inversion E; reflexivity. }
    destruct (Lf th S) as (_ & _ & E). rewrite (E eq_refl). cbn.
    pose proof (S 1) as [_ S1]. pose proof (S 2) as [_ S2]. vm_compute in S1, S2.
    rewrite S1, S2. reflexivity.
  - destruct (A th S 1 2 3) as [(a & b & Ef & Sx & Er)|(Ef & _)]; [left; reflexivity| |discriminate].
    exists a. rewrite Er. auto.
  - destruct (A th S 0 3 4) as [(a & b & Ef & Sx & Er)|(Ef & _)]; [right; left; reflexivity| |discriminate].
    exists a. injection Ef as Ea Eb. subst b. rewrite Er. repeat split; auto. rewrite <- Ea. reflexivity.
Qed.

Example e1_satisfiable : exists th, sat gH th e1_s.
Proof. exact (C04_gen_satisfiable gH gH_wf e1 200 [] e1_vals e1_s e1_okG e1_accepted). Qed.

(* (b)  a compound reference:  kk : x ** y ** (x * y)  [R(x, y) << [R(Ord, _), R(Obj, y)]];
   kk (- : Nom) (- : Obj) *)
Definition kk := mkSchema 2 (SOp Function [SVar 0; SOp Function [SVar 1; SOp Product [SVar 0; SVar 1]]])
  [SCElim (SOp 9 [SVar 0; SVar 1]) [SOp 9 [SOp 5 []; SWild]; SOp 9 [SOp 6 []; SVar 1]]].
Definition e2 := EApp (EApp (EOp kk) (ESrc (SOp 7 []))) (ESrc (SOp 6 [])).

Example e2_okG : leaves_okG gH e2.
Proof. cbn [leaves_okG e2 kk s_n s_body s_constrs]. repeat split; styg_tac. Qed.

Example e2_not_okE : ~ leaves_okE gH e2.
Proof.
  intros (((_ & Pc) & _) & _). cbn [s_constrs kk] in Pc.
  inversion Pc as [|? ? P1 _]; subst. destruct P1 as [P1|P1]; cbn in P1; exact P1.
Qed.

Definition e2_run := Eval vm_compute in run_cmds gH 200 (prog_of e2) 0 [] (empty_store []).
Definition e2_vals := snd (fst e2_run).
Definition e2_s := snd e2_run.

Example e2_accepted : run_cmds gH 200 (prog_of e2) 0 [] (empty_store []) = (None, e2_vals, e2_s).
Proof. vm_compute. reflexivity. Qed.

(* the first alternative is left; unify(R(x, y), R(Ord, _)) gave x the upper bound Ord *)
Example e2_state :
  prog_vars gH 200 [] (prog_of e2) = [(0, 0); (1, 3); (3, 3)] /\
  map (fun c => (c_bound c, c_lower c, c_upper c)) (vars e2_s) =
    [(Some (O 7 []), Some 7, Some 5); (Some (V 2), None, None); (Some (O 6 []), Some 6, None)] /\
  map (fun k => (k_elim k, k_ref k, k_alts k, k_done k)) (constrs e2_s) =
    [(true, O 9 [V 0; V 1], [O 9 [O 5 []; V 2]], true)].
Proof. vm_compute. repeat split. Qed.

(* the leaf kk denotes Nom ** Obj ** (Nom * Obj) under every satisfying grounding *)
Example e2_holds : forall th, sat gH th e2_s ->
  den th (val e2_vals 0) =
    TOp Function [TOp 7 []; TOp Function [TOp 6 []; TOp Product [TOp 7 []; TOp 6 []]]] /\
  den th (val e2_vals 4) = TOp Product [TOp 7 []; TOp 6 []].
Proof.
  intros th S.
  destruct (C04_gen gH gH_wf e2 200 [] e2_vals e2_s e2_okG e2_accepted) as (A & B).
  pose proof (S 0) as [_ S0]. pose proof (S 1) as [_ S1]. pose proof (S 2) as [_ S2].
  vm_compute in S0, S1, S2. rewrite S2 in S1.
  assert (E0 : den th (val e2_vals 0) =
    TOp Function [TOp 7 []; TOp Function [TOp 6 []; TOp Product [TOp 7 []; TOp 6 []]]]).
  { destruct (B 0 kk) as (n0 & Hn0 & Lf); [left; reflexivity|].
    rewrite (proj1 e2_state) in Hn0.
    assert (n0 = 0) as ->.
    { destruct Hn0 as [E|[E|[E|[]]]]; inversion E; reflexivity. }
    destruct (Lf th S) as (_ & _ & E). rewrite (E eq_refl). cbn. rewrite S0, S1. reflexivity. }
  split; [exact E0|].
  destruct (A th S 0 1 2) as [(a & b & Ef & Sx & Er)|(Ef & _)]; [left; reflexivity| |rewrite E0 in Ef; discriminate].
  rewrite E0 in Ef. injection Ef as <- <-.
  destruct (A th S 2 3 4) as [(a' & b' & Ef' & Sx' & Er')|(Ef' & _)];
    [right; left; reflexivity| |rewrite Er in Ef'; discriminate].
  rewrite Er in Ef'. injection Ef' as <- <-. exact Er'.
Qed.

(* (c)  a subtype constraint with a compound target:  sc4 : x ** y  [x <= C(y)];
   sc4 (- : C(Nom)) *)
Definition sc4 := mkSchema 2 (SOp Function [SVar 0; SVar 1]) [SCSub (SVar 0) (SOp 8 [SVar 1]) false].
Definition e4 := EApp (EOp sc4) (ESrc (SOp 8 [SOp 7 []])).

Example e4_okG : leaves_okG gH e4.
Proof. cbn [leaves_okG e4 sc4 s_n s_body s_constrs]. repeat split; styg_tac. Qed.

Example e4_not_okS : ~ leaves_okS gH e4.
Proof.
  intros ((_ & Pc) & _). cbn [s_constrs sc4] in Pc.
  inversion Pc as [|? ? P1 _]; subst. cbn in P1. exact P1.
Qed.

Definition e4_run := Eval vm_compute in run_cmds gH 200 (prog_of e4) 0 [] (empty_store []).
Example e4_accepted :
  run_cmds gH 200 (prog_of e4) 0 [] (empty_store []) = (None, snd (fst e4_run), snd e4_run).
Proof. vm_compute. reflexivity. Qed.

Example e4_holds : forall th, sat gH th (snd e4_run) ->
  den th (val (snd (fst e4_run)) 0) = TOp Function [TOp 8 [TOp 7 []]; TOp 7 []].
Proof.
  intros th S.
  destruct (C04_gen gH gH_wf e4 200 [] _ _ e4_okG e4_accepted) as (_ & B).
  destruct (B 0 sc4) as (n0 & Hn0 & Lf); [left; reflexivity|].
  assert (Ev : prog_vars gH 200 [] (prog_of e4) = [(0, 0); (1, 3)]) by (vm_compute; reflexivity).
  rewrite Ev in Hn0.
  assert (n0 = 0) as ->.
  { destruct Hn0 as [E|[E|[]]]; inversion E; reflexivity. }
  destruct (Lf th S) as (_ & _ & E). rewrite (E eq_refl). cbn.
  pose proof (S 0) as [_ S0]. pose proof (S 1) as [_ S1]. pose proof (S 2) as [_ S2].
  vm_compute in S0, S1, S2. rewrite S2, S1 in S0. rewrite S0, S1. reflexivity.
Qed.

(* (d)  rejected: keys (- : Ord) - no alternative is left *)
Definition e3 := EApp (EOp keys) (ESrc (SOp 5 [])).
Example e3_rejected :
  leaves_okG gH e3 /\
  fst (fst (run_cmds gH 200 (prog_of e3) 0 [] (empty_store []))) = Some (EConstraintViolation, 2).
Proof.
  split; [|vm_compute; reflexivity].
  cbn [leaves_okG e3 keys s_n s_body s_constrs]. repeat split; styg_tac.
Qed.
(* ... and an ill-typed application is rejected as before: size (- : Ord) *)
Example e5_rejected :
  let e5 := EApp (EOp size') (ESrc (SOp 5 [])) in
  leaves_okG gH e5 /\
  fst (fst (run_cmds gH 200 (prog_of e5) 0 [] (empty_store []))) = Some (ESubtypeMismatch, 2).
Proof.
  split; [|vm_compute; reflexivity].
  cbn [leaves_okG size' s_n s_body s_constrs]. repeat split; styg_tac.
Qed.

(* ---------- part 2 example ---------- *)
(* input 1 : R(Ord, Obj);   (size ((keys 1) : C(Ord))) : Ord   through the full compiler *)
Definition x1 := XAnn (XApp (XOp size' false)
                            (XAnn (XApp (XOp keys false) (XIn 0)) (SOp 8 [SOp 5 []])))
                      (SOp 5 []).
Definition x1_in := [SOp 9 [SOp 5 []; SOp 6 []]].

Example x1_okG : Forall (fun t => styg gH (sbound t) t) x1_in /\ xokG gH 1 x1.
Proof.
  split; [unfold x1_in; styg_tac|].
  cbn [xokG x1 keys size' s_n s_body s_constrs]. repeat split; styg_tac.
Qed.

Example x1_not_okE : ~ xokE gH 1 x1.
Proof.
  intros ((_ & ((_ & Pc) & _) & _) & _). cbn [s_constrs keys] in Pc.
  inversion Pc as [|? ? P1 _]; subst. destruct P1 as [P1|P1]; cbn in P1; [exact P1|].
  destruct P1 as (_ & l & _ & E). destruct l as [|b l]; discriminate.
Qed.

Example x1_prog : xprog x1_in x1 =
  [CInst (mkSchema 0 (SOp 9 [SOp 5 []; SOp 6 []]) []); CInst size'; CInst keys; CApply 2 0 true;
   CInst (mkSchema 0 (SOp 8 [SOp 5 []]) []); CUnify 3 4 true; CApply 1 3 true;
   CInst (mkSchema 0 (SOp 5 []) []); CUnify 5 6 true;
   CFix 0 false; CFix 3 true; CFix 5 true].
Proof. reflexivity. Qed.

Example x1_tree :
  snd (fst (xcompile x1 1)) = NApp 5 (NLeaf 1) (NApp 3 (NLeaf 2) (NSource 0)) /\
  xleaves x1 1 = [(1, size'); (2, keys)] /\
  xanns x1 1 = [(3, 4, SOp 8 [SOp 5 []]); (5, 6, SOp 5 [])].
Proof. repeat split. Qed.

Definition x1_run := Eval vm_compute in run_cmds gH 200 (xprog x1_in x1) 0 [] (empty_store []).
Definition x1_vals := snd (fst x1_run).
Definition x1_s := snd x1_run.

Example x1_accepted : run_cmds gH 200 (xprog x1_in x1) 0 [] (empty_store []) = (None, x1_vals, x1_s).
Proof. vm_compute. reflexivity. Qed.

(* both annotations hold under every satisfying grounding; the re-fixed root
   denotes what the root as built denotes *)
Example x1_annotations : forall th, sat gH th x1_s ->
  Sub gH (den th (val x1_vals 3)) (TOp 8 [TOp 5 []]) /\
  Sub gH (den th (val x1_vals 5)) (TOp 5 []).
Proof.
  intros th S.
  pose proof (C04_gen_annotations gH gH_wf x1_in x1 200 [] x1_vals x1_s (proj1 x1_okG) (proj2 x1_okG)
                x1_accepted th S) as A.
  split.
  - destruct (A 3 4 (SOp 8 [SOp 5 []])) as (_ & _ & X); [left; reflexivity|]. apply X; reflexivity.
  - destruct (A 5 6 (SOp 5 [])) as (_ & _ & X); [right; left; reflexivity|]. apply X; reflexivity.
Qed.

(* the operator leaf keys (value 2; its variables are V 1, V 2) *)
Example x1_keys : forall th, sat gH th x1_s ->
  den th (val x1_vals 2) = TOp Function [TOp 9 [TOp 5 []; TOp 6 []]; TOp 8 [TOp 5 []]].
Proof.
  intros th S.
  destruct (C04_gen_full gH gH_wf x1_in x1 200 [] x1_vals x1_s (proj1 x1_okG) (proj2 x1_okG) x1_accepted)
    as (_ & _ & B).
  destruct (B 2 keys) as (n0 & Hn0 & Lf); [right; left; reflexivity|].
  assert (Ev : prog_vars gH 200 [] (xprog x1_in x1) = [(0, 0); (1, 0); (2, 1); (4, 4); (6, 4)])
    by (vm_compute; reflexivity).
  rewrite Ev in Hn0.
  assert (n0 = 1) as ->.
  { destruct Hn0 as [E|[E|[E|[E|[E|[]]]]]]; inversion E; reflexivity. }
  destruct (Lf th S) as (_ & _ & E). rewrite (E eq_refl). cbn.
  pose proof (S 1) as [_ S1]. pose proof (S 2) as [_ S2]. vm_compute in S1, S2.
  rewrite S1, S2. reflexivity.
Qed.

(* the annotation matters: (size ((keys 1) : C(Ord))) : Obj is rejected at the
   outer annotation's unify *)
Definition x1_bad := XAnn (XApp (XOp size' false)
                                (XAnn (XApp (XOp keys false) (XIn 0)) (SOp 8 [SOp 5 []])))
                          (SOp 6 []).
Example x1_bad_rejected :
  xokG gH 1 x1_bad /\
  fst (fst (run_cmds gH 200 (xprog x1_in x1_bad) 0 [] (empty_store []))) = Some (ESubtypeMismatch, 8).
Proof.
  split; [|vm_compute; reflexivity].
  cbn [xokG x1_bad keys size' s_n s_body s_constrs]. repeat split; styg_tac.
Qed.
