(* C19  Graph generation is deterministic up to blank-node renaming.

   A deterministic function needs no theorem.  What is proved here is that the
   only sources of nondeterminism in the modelled code - the iteration orders
   of Python sets and of rdflib's Graph.objects() - are unobservable in the
   produced triple SET, for every order ("schedule"):

     Det/Perm.v           folding a commutative idempotent insertion: only the set
                          of visited elements matters
     Det/AddFromTr.v      add_from (C09's model Graph/Closure.v) on triple stores;
                          any order / repetition / flags of add_from calls
     Det/WireSched.v      add_expr (C08's model Graph/AddExpr.v) with every
                          Graph.objects() call answered in an arbitrary order
     Det/CanonSched.v     TypeOperator.children as a set, the stack discipline of
                          Language.expand_canon, the taxonomy read off the
                          canonical set (C10's model Canon/*.v)
     Det/WorkflowSched.v  the listing order of wf.tool_outputs in add_workflow
                          (C12's model Graph/Workflow.v)

   The literal half of the property (printed signatures and labels must not
   depend on hash seed or allocation history) is decided on the implementation
   (harness/c19.py); the pinned code violated it, see proposed_fixes/C19.diff.
   Property theorems only; each is closed by [exact] of a library lemma. *)
From Coq Require Import List Arith Bool Permutation.
Import ListNotations.
From TF Require Graph.Closure.
From TF Require Import Base.Hier Base.Ty Graph.AddExpr Graph.AddExprSpec Graph.Workflow.
From TF Require Import Canon.Worklist Canon.Succ Canon.Canon.
From TF Require Import Det.Perm Det.AddFromTr Det.WireSched Det.CanonSched Det.WorkflowSched.

(* ---- generic ---- *)

(* iterating a set and inserting (an operation that is commutative and idempotent
   up to R on states satisfying P, compatible with R, P preserved): the result
   depends only on the SET of visited elements, not on order or repetition *)
Theorem C19_fold_any_order : forall (S A : Type) (R : S -> S -> Prop) (P : S -> Prop) (ins : A -> S -> S),
  (forall s, R s s) -> (forall s s', R s s' -> R s' s) ->
  (forall s1 s2 s3, R s1 s2 -> R s2 s3 -> R s1 s3) ->
  (forall a s, P s -> P (ins a s)) ->
  (forall a s s', P s -> R s s' -> R (ins a s) (ins a s')) ->
  (forall a b s, P s -> R (ins a (ins b s)) (ins b (ins a s))) ->
  (forall a s, P s -> R (ins a (ins a s)) (ins a s)) ->
  forall l l', seteq l l' -> forall s s', P s -> R s s' ->
    R (fold S A ins l s) (fold S A ins l' s').
Proof. exact fold_seteq. Qed.
Print Assumptions C19_fold_any_order.

(* ... instantiated for Graph.add on a store seen as a set, any permutation *)
Theorem C19_store_add_any_order : forall (A : Type) (eqb : A -> A -> bool),
  (forall a b, eqb a b = true <-> a = b) ->
  forall l l', Permutation l l' -> forall s,
    seteq (fold _ _ (sadd A eqb) l s) (fold _ _ (sadd A eqb) l' s).
Proof. exact sadd_perm. Qed.
Print Assumptions C19_store_add_any_order.

(* ---- add_from histories ---- *)

(* C09's model: permuting the history of add_from calls changes neither the
   from-set nor the depends-set *)
Theorem C19_add_from_history_any_order : forall ops ops' : list Closure.op, Permutation ops ops' ->
  seteq (Closure.frm (Closure.run ops)) (Closure.frm (Closure.run ops')) /\
  seteq (Closure.dep (Closure.run ops)) (Closure.dep (Closure.run ops')).
Proof. exact closure_run_perm. Qed.
Print Assumptions C19_add_from_history_any_order.

(* on whole triple stores, from ANY store whose depends is the closure of its from
   (an expression or workflow step added to an existing graph): two call sequences
   that add the same set of edges - any order, repetitions, recursive flags - leave
   the same set of triples *)
Theorem C19_add_from_calls_any_order : forall cs cs' g g', good g -> teq g g' ->
  seteq (map snd cs) (map snd cs') -> teq (run_calls cs g) (run_calls cs' g').
Proof. exact run_calls_seteq. Qed.
Print Assumptions C19_add_from_calls_any_order.

(* ---- add_expr: the three wiring loops over Graph.objects() ---- *)

(* one loop: folding add_from over any permutation of the visited pairs *)
Theorem C19_wiring_loop_any_order : forall ps ps' g, good g -> Permutation ps ps' ->
  teq (add_from_all (add_from_tr false) ps g) (add_from_all (add_from_tr false) ps' g)
  /\ good (add_from_all (add_from_tr false) ps g).
Proof. exact wiring_loop_any_order. Qed.
Print Assumptions C19_wiring_loop_any_order.

(* the scheduled model run with the store's own order is C08's model *)
Theorem C19_scheduled_model_is_C08_model : forall add_from e cur st,
  add_expr_s add_from objs e cur st = add_expr add_from false e cur st.
Proof. exact add_expr_s_is_add_expr. Qed.
Print Assumptions C19_scheduled_model_is_C08_model.

(* the whole translation, every expression of any depth, with_dependencies on:
   whatever order each Graph.objects() call yields (any two schedules; each may
   depend on the whole store, i.e. on the insertion history), from set-equal stores
   with the same expr_nodes memo and blank-node counter, both runs fail or both
   return the same node, memo, counter and the same SET of triples (tf:depends
   included); and depends stays the closure of from *)
Theorem C19_add_expr_any_schedule : forall ob ob', sched_ok ob -> sched_ok ob' ->
  forall e cur st st', seq st st' -> good (g_tr st) ->
    same_outcome (add_expr_s (add_from_tr false) ob e cur st)
                 (add_expr_s (add_from_tr false) ob' e cur st')
    /\ (forall n s, add_expr_s (add_from_tr false) ob e cur st = Some (n, s) -> good (g_tr s)).
Proof. exact add_expr_dep_any_schedule. Qed.
Print Assumptions C19_add_expr_any_schedule.

(* with_dependencies off *)
Theorem C19_add_expr_plain_any_schedule : forall ob ob', sched_ok ob -> sched_ok ob' ->
  forall e cur st st', seq st st' ->
    same_outcome (add_expr_s add_from_plain ob e cur st) (add_expr_s add_from_plain ob' e cur st').
Proof. exact add_expr_plain_any_schedule. Qed.
Print Assumptions C19_add_expr_plain_any_schedule.

(* several expressions into one graph, each under its own schedule *)
Theorem C19_add_exprs_any_schedule : forall es es',
  map fst es = map fst es' ->
  Forall (fun p => sched_ok (snd p)) es -> Forall (fun p => sched_ok (snd p)) es' ->
  forall st st', seq st st' -> good (g_tr st) ->
  match add_exprs_s (add_from_tr false) es st, add_exprs_s (add_from_tr false) es' st' with
  | Some (ns, s), Some (ns', s') =>
      ns = ns' /\ g_memo s = g_memo s' /\ g_next s = g_next s' /\ seteq (g_tr s) (g_tr s')
  | None, None => True
  | _, _ => False
  end.
Proof. exact add_exprs_dep_any_schedule. Qed.
Print Assumptions C19_add_exprs_any_schedule.

(* ---- canonical types ---- *)

(* the stack-driven closure loop: different successor orders, any push order (with
   or without repetition), any order of the initial stack - completed runs compute
   the same set *)
Theorem C19_worklist_any_discipline : forall (A : Type) (eqb : A -> A -> bool),
  (forall a b, eqb a b = true <-> a = b) ->
  forall (step step' : A -> list A) (push push' : A -> list A -> list A)
         (fuel fuel' : nat) (stack0 stack0' seen0 seen0' r r' : list A),
    (forall x, seteq (step x) (step' x)) ->
    (forall x seen y, In y (push x seen) -> In y (step x)) ->
    (forall x seen y, In y (step x) -> In y (push x seen) \/ In y seen) ->
    (forall x seen y, In y (push' x seen) -> In y (step' x)) ->
    (forall x seen y, In y (step' x) -> In y (push' x seen) \/ In y seen) ->
    seteq stack0 stack0' ->
    (forall x, In x seen0 -> In x stack0) -> (forall x, In x seen0' -> In x stack0') ->
    wl eqb push fuel stack0 seen0 = Some r -> wl eqb push' fuel' stack0' seen0' = Some r' ->
    seteq r r'.
Proof. exact (@wl_any_discipline). Qed.
Print Assumptions C19_worklist_any_discipline.

(* TypeOperation.successors / floor / ceiling for a type of any depth: the order
   of the children sets (and of the universe) does not change the set of successors *)
Theorem C19_successors_any_children_order : forall H ops ops', Permutation ops ops' ->
  forall custom top bot univ univ', Permutation univ univ' ->
  forall t d, seteq (succ H ops custom top bot univ d t) (succ H ops' custom top bot univ' d t).
Proof. exact succ_any_children_order. Qed.
Print Assumptions C19_successors_any_children_order.

(* Language.expand_canon: any order of the children sets, any order of list(canon),
   any order in which unseen successors are pushed *)
Theorem C19_expand_canon_any_schedule : forall H top bot ops ops' push push' fuel fuel' stack0 stack0' listed c c',
  Permutation ops ops' -> push_ok H top bot ops push -> push_ok H top bot ops' push' ->
  Permutation stack0 listed -> Permutation stack0' listed ->
  expand_canon_s push fuel stack0 listed = Some c ->
  expand_canon_s push' fuel' stack0' listed = Some c' ->
  seteq c c'.
Proof. exact expand_canon_any_schedule. Qed.
Print Assumptions C19_expand_canon_any_schedule.

(* the code's own discipline is one of them *)
Theorem C19_expand_canon_code_discipline : forall H top bot ops,
  push_ok H top bot ops (can_push H ops top bot) /\
  forall fuel stack0 listed,
    expand_canon_s (can_push H ops top bot) fuel stack0 listed = expand_canon H ops top bot fuel stack0 listed.
Proof. exact expand_canon_code_discipline. Qed.
Print Assumptions C19_expand_canon_code_discipline.

(* add_taxonomy / Language.successors iterate the canonical set: the subClassOf links
   and the described type nodes depend on it as a set only *)
Theorem C19_taxonomy_canon_set : forall H canon canon', seteq canon canon' ->
  seteq (taxonomy H canon) (taxonomy H canon') /\
  seteq (vocab_types canon) (vocab_types canon') /\
  forall d t tr, seteq (lang_succ H canon d t tr) (lang_succ H canon' d t tr).
Proof. exact canon_set_only. Qed.
Print Assumptions C19_taxonomy_canon_set.

(* ---- workflows ---- *)

(* the iteration order of wf.tool_outputs (the order of w_apps): same sources, any
   permutation of the applications, outputs named once - add_workflow returns the
   same result, for any add_from (in particular with and without dependencies) *)
Theorem C19_workflow_any_tool_order : forall wf wf',
  w_srcs wf = w_srcs wf' -> Permutation (w_apps wf) (w_apps wf') ->
  NoDup (map a_out (w_apps wf)) ->
  forall add_from add_from_r pinned passthrough,
    add_workflow add_from add_from_r pinned passthrough wf =
    add_workflow add_from add_from_r pinned passthrough wf'.
Proof. exact add_workflow_any_tool_order. Qed.
Print Assumptions C19_workflow_any_tool_order.

(* ------------------------------------------------------------------------ *)
(* Non-vacuity *)

(* there are schedules other than the store's own order, and the empty store is good *)
Example C19_ex_schedules : sched_ok objs /\ sched_ok objs_rev /\ good [] /\ seq g_empty g_empty.
Proof.
  split; [exact objs_sched_ok|]. split; [exact objs_rev_ok|]. split; [exact good_nil|].
  repeat split; intros H; exact H.
Qed.

(* f g h (\x. k x x) a  with three function-typed arguments and a shared source (C08's
   example): under the reversed listing order the add_from calls happen in a
   different order - the stores differ as LISTS - and the theorem says they are
   equal as sets *)
Definition ex_three : expr :=
  EApp 20 (EApp 19 (EApp 18 (EApp 17 (EOp 10 3) (EOp 11 4) true) (EOp 12 5) true)
                   (EAbs 13 [14] (EApp 16 (EApp 15 (EOp 21 6) (EVar 14) false) (EVar 14) false)) true)
       (ESrc 3) false.
Definition ex_run (ob : sched) : list triple :=
  store_of (add_expr_s (add_from_tr false) ob ex_three None g_empty).
Example C19_ex_orders_differ :
  ex_run objs <> ex_run objs_rev /\ length (ex_run objs) = 72 /\ length (ex_run objs_rev) = 72.
Proof. split; [vm_compute; discriminate | split; vm_compute; reflexivity]. Qed.
Example C19_ex_same_set : seteq (ex_run objs) (ex_run objs_rev).
Proof.
  destruct C19_ex_schedules as (H1 & H2 & H3 & H4).
  apply same_outcome_store.
  exact (proj1 (C19_add_expr_any_schedule objs objs_rev H1 H2 ex_three None g_empty g_empty H4 H3)).
Qed.

(* a history and a permutation of it *)
Example C19_ex_history :
  Permutation [(false, (2, 1)); (false, (0, 2)); (false, (0, 3)); (true, (1, 3))]
              [(true, (1, 3)); (false, (0, 3)); (false, (2, 1)); (false, (0, 2))].
Proof.
  apply Permutation_sym.
  apply (Permutation_trans (l' := [(false, (2, 1)); (false, (0, 2)); (false, (0, 3)); (true, (1, 3))])).
  - change [(true, (1, 3)); (false, (0, 3)); (false, (2, 1)); (false, (0, 2))]
      with (rev [(false, (0, 2)); (false, (2, 1)); (false, (0, 3)); (true, (1, 3))]).
    eapply Permutation_trans; [apply Permutation_sym, Permutation_rev|].
    apply perm_swap.
  - apply Permutation_refl.
Qed.

(* canonical types: C10's example language (A > B > C, D, F unary, K binary with
   variance (co, contra)); the code's discipline against: children sets reversed,
   initial stack in the other order, successors pushed in reverse.  Both runs
   complete and list the 35 canonical types in different orders. *)
Definition exH : hier := mk_hier [(6, 5); (7, 6)] [(9, [true]); (10, [true; false])].
Definition exOps : list nat := [5; 6; 7; 8; 9; 10].
Definition exListed : list ty := [Ty.TOp 5 []; Ty.TOp 10 [Ty.TOp 9 [Ty.TOp 6 []]; Ty.TOp 7 []]].
Definition rev_push : ty -> list ty -> list ty :=
  fun x seen => rev (can_push exH (rev exOps) true true x seen).
Definition exC1 := expand_canon_s (can_push exH exOps true true) 2000 (rev exListed) exListed.
Definition exC2 := expand_canon_s rev_push 2000 exListed exListed.

Example C19_ex_canon_hyps :
  Permutation exOps (rev exOps) /\ push_ok exH true true exOps (can_push exH exOps true true) /\
  push_ok exH true true (rev exOps) rev_push /\
  Permutation (rev exListed) exListed /\ Permutation exListed exListed.
Proof.
  split; [apply Permutation_rev|]. split; [apply can_push_ok|]. split.
  - intros x seen y. unfold rev_push. rewrite <- in_rev. apply can_push_ok.
  - split; [apply Permutation_sym, Permutation_rev | apply Permutation_refl].
Qed.

Example C19_ex_canon_runs : exists c c', exC1 = Some c /\ exC2 = Some c' /\ c <> c' /\
  length c = 35 /\ length c' = 35.
Proof.
  destruct exC1 as [c|] eqn:E1; [|vm_compute in E1; discriminate E1].
  destruct exC2 as [c'|] eqn:E2; [|vm_compute in E2; discriminate E2].
  exists c, c'. vm_compute in E1. vm_compute in E2.
  injection E1 as <-. injection E2 as <-.
  repeat split; try reflexivity. discriminate.
Qed.

(* a workflow with two applications, listed in either order *)
Definition ex_wf (apps : list tapp) : wflow := mkWf [100] apps.
Definition ex_a1 : tapp := mkApp 101 (TApp 1 (Workflow.TOp 0 7) (TIn 0) false) [100] [50].
Definition ex_a2 : tapp := mkApp 102 (TApp 3 (TApp 2 (Workflow.TOp 4 8) (TIn 0) false) (TIn 1) false) [101; 100] [51; 52].
Example C19_ex_workflow :
  Permutation (w_apps (ex_wf [ex_a1; ex_a2])) (w_apps (ex_wf [ex_a2; ex_a1])) /\
  NoDup (map a_out (w_apps (ex_wf [ex_a1; ex_a2]))) /\
  exists r, add_workflow (add_from_tr false) (add_from_tr true) false false (ex_wf [ex_a2; ex_a1]) = Some r
            /\ length (r_tr r) = 12.
Proof.
  split; [apply perm_swap|]. split.
  - cbn. repeat constructor; cbn; intuition discriminate.
  - eexists. split; vm_compute; reflexivity.
Qed.
