(* C06, second sentence, on the engine model, for PATTERN alternatives:

     "When exactly one alternative fits, the variables it mentions are determined
      by it and the result is the correspondingly instantiated result type (e.g.
      keys : a ** C(b) [a << {C(b), R(b, _)}] applied to R(Ord, Obj) gives C(Ord))".

   Everything below is about the faithful fuelled model of the inference engine
   (Infer/Engine.v, Infer/Run.v), for EVERY well-formed hierarchy H, every
   schedule sc (no choice point is reached) and every fuel >= 9 (plus the depth
   of the argument where the argument is an arbitrary concrete type); proofs by
   symbolic execution in Infer/FitsEnginePat.v.  [deep n s t] resolves bound
   variables of t in the store s down to depth n; [accept_spec], [fitsb], [Fits]
   are the specification of Infer/Fits.v (props/C06.v).

   1. the unary family  a ** b [a << [F(b)]],  F any unary covariant operator:
      - C06_engine_unary_pattern: applied to F(t), t any base operator other than
        Bottom (Top included): succeeds, b is bound to t and the result is t; the
        signature instance resolves to F(t) ** t.  F(t) fits the alternative.
      - C06_engine_unary_pattern_reject: applied to ANY concrete type whose head
        is neither F nor Bottom (base types, other compound operators, whatever
        the parameters): fails at the apply with the declared error
        SubtypeMismatch (base head) / TypeMismatch (compound head); the argument
        does not fit.
      - C06_engine_unary_pattern_bottom (boundary, reported): F(Bottom) and Bottom
        are accepted as the specification says (they fit), but b is NOT
        determined: unify skips Bottom, the result is the unresolved, unbounded b.
   2. the tutorial instance keys : a ** C(b) [a << [C(b); R(b, _)]], C unary and
      R binary covariant, t1 t2 t user base operators (not Top/Bottom):
      - C06_engine_keys:   applied to R(t1, t2): result C(t1); exactly the
        alternative R(b, _) fits (filter, and Fits <-> alt = R(b, _)).
      - C06_engine_keys_C: applied to C(t): result C(t); exactly C(b) fits.
      - C06_engine_keys_base / C06_engine_keys_reject: applied to a base type
        other than Bottom, resp. to any well-formed concrete type whose head is
        none of Bottom, C, R: fails with the declared error ConstraintViolation;
        no alternative fits.
      - C06_engine_keys_bottom (boundary): Bottom is accepted, both alternatives
        fit (not unique), nothing is determined.
   3. in every case the outcome agrees with accept_spec, and where the run
      succeeds with a determined result the fitting alternative is unique.

   Not covered: arguments F(y) / R(y1, y2) with compound parameters y, nested
   patterns, contravariant positions, more than one variable; these stay with the
   per-case correspondence check of the harness. *)
From Coq Require Import List Arith Bool.
Import ListNotations.
From TF Require Import Base.Hier Base.Ty Sub.Match Sub.SubSpec Sub.SubProofs
  Infer.Store Infer.Engine Infer.Run Infer.Fits Infer.FitsEnginePat.

(* ---------- 1. a ** b [a << [F(b)]] ---------- *)

Theorem C06_engine_unary_pattern : forall H, wf_hier H -> forall F t fuel sc,
  variance H F = [true] -> variance H t = [] -> t <> Bottom -> 9 <= fuel ->
  let alts := [SOp F [SVar 1]] in
  let x := TOp F [TOp t []] in
  let r := run_cmds H fuel
             [CInst (mkSchema 2 (SOp Function [SVar 0; SVar 1]) [SCElim (SVar 0) alts]);
              CInst (mkSchema 0 (SOp F [SOp t []]) []);
              CApply 0 1 true] 0 [] (empty_store sc) in
  fst (fst r) = None /\
  map (follow (snd r)) (snd (fst r)) = [O Function [V 0; V 1]; O F [O t []]; O t []] /\
  map (deep 3 (snd r)) (snd (fst r)) =
    [O Function [O F [O t []]; O t []]; O F [O t []]; O t []] /\
  c_bound (cell_of (snd r) 1) = Some (O t []) /\
  accept_spec H x alts = true /\
  (forall alt, In alt alts -> Fits H x alt).
Proof. exact unary_pattern_stmt. Qed.
Print Assumptions C06_engine_unary_pattern.

Theorem C06_engine_unary_pattern_reject : forall H, wf_hier H -> forall F x fuel sc,
  variance H F = [true] -> ty_op x <> Bottom -> ty_op x <> F -> 9 <= fuel -> ty_depth x < fuel ->
  let alts := [SOp F [SVar 1]] in
  let r := run_cmds H fuel
             [CInst (mkSchema 2 (SOp Function [SVar 0; SVar 1]) [SCElim (SVar 0) alts]);
              CInst (mkSchema 0 (sconc x) []);
              CApply 0 1 true] 0 [] (empty_store sc) in
  fst r = (Some (if basic H (ty_op x) then ESubtypeMismatch else ETypeMismatch, 2),
           [O Function [V 0; V 1]; inj x]) /\
  accept_spec H x alts = false /\
  (forall alt, In alt alts -> ~ Fits H x alt).
Proof. exact unary_pattern_reject_stmt. Qed.
Print Assumptions C06_engine_unary_pattern_reject.

(* boundary: Bottom as (parameter of) the argument is accepted, as it fits, but
   determines nothing - variable 1 (b) stays unbound and unbounded *)
Theorem C06_engine_unary_pattern_bottom : forall H, wf_hier H -> forall F fuel sc,
  variance H F = [true] -> 9 <= fuel ->
  let alts := [SOp F [SVar 1]] in
  let sig := mkSchema 2 (SOp Function [SVar 0; SVar 1]) [SCElim (SVar 0) alts] in
  let r1 := run_cmds H fuel [CInst sig; CInst (mkSchema 0 (SOp F [SOp Bottom []]) []); CApply 0 1 true]
                     0 [] (empty_store sc) in
  let r2 := run_cmds H fuel [CInst sig; CInst (mkSchema 0 (SOp Bottom []) []); CApply 0 1 true]
                     0 [] (empty_store sc) in
  (fst r1 = (None, [O Function [V 0; V 1]; O F [O Bottom []]; V 1]) /\
   cell_of (snd r1) 1 = mkCell false None None None 0 /\
   accept_spec H (TOp F [TOp Bottom []]) alts = true) /\
  (fst r2 = (None, [O Function [V 0; V 1]; O Bottom []; V 1]) /\
   cell_of (snd r2) 1 = mkCell false None None None 0 /\
   accept_spec H (TOp Bottom []) alts = true).
Proof. exact unary_pattern_bottom_stmt. Qed.
Print Assumptions C06_engine_unary_pattern_bottom.

(* ---------- 2. keys : a ** C(b) [a << [C(b); R(b, _)]] ---------- *)

Theorem C06_engine_keys : forall H, wf_hier H -> forall C R t1 t2 fuel sc,
  variance H C = [true] -> variance H R = [true; true] ->
  (variance H t1 = [] /\ t1 <> Top /\ t1 <> Bottom) ->
  (variance H t2 = [] /\ t2 <> Top /\ t2 <> Bottom) -> 9 <= fuel ->
  let alts := [SOp C [SVar 1]; SOp R [SVar 1; SWild]] in
  let x := TOp R [TOp t1 []; TOp t2 []] in
  let r := run_cmds H fuel
             [CInst (mkSchema 2 (SOp Function [SVar 0; SOp C [SVar 1]]) [SCElim (SVar 0) alts]);
              CInst (mkSchema 0 (SOp R [SOp t1 []; SOp t2 []]) []);
              CApply 0 1 true] 0 [] (empty_store sc) in
  fst (fst r) = None /\
  map (deep 3 (snd r)) (snd (fst r)) =
    [O Function [O R [O t1 []; O t2 []]; O C [O t1 []]]; O R [O t1 []; O t2 []]; O C [O t1 []]] /\
  c_bound (cell_of (snd r) 1) = Some (O t1 []) /\
  accept_spec H x alts = true /\
  filter (fitsb H x) alts = [SOp R [SVar 1; SWild]] /\
  (forall alt, In alt alts -> (Fits H x alt <-> alt = SOp R [SVar 1; SWild])).
Proof. exact keys_R_stmt. Qed.
Print Assumptions C06_engine_keys.

Theorem C06_engine_keys_C : forall H, wf_hier H -> forall C R t fuel sc,
  variance H C = [true] -> variance H R = [true; true] ->
  (variance H t = [] /\ t <> Top /\ t <> Bottom) -> 9 <= fuel ->
  let alts := [SOp C [SVar 1]; SOp R [SVar 1; SWild]] in
  let x := TOp C [TOp t []] in
  let r := run_cmds H fuel
             [CInst (mkSchema 2 (SOp Function [SVar 0; SOp C [SVar 1]]) [SCElim (SVar 0) alts]);
              CInst (mkSchema 0 (SOp C [SOp t []]) []);
              CApply 0 1 true] 0 [] (empty_store sc) in
  fst (fst r) = None /\
  map (deep 3 (snd r)) (snd (fst r)) =
    [O Function [O C [O t []]; O C [O t []]]; O C [O t []]; O C [O t []]] /\
  c_bound (cell_of (snd r) 1) = Some (O t []) /\
  accept_spec H x alts = true /\
  filter (fitsb H x) alts = [SOp C [SVar 1]] /\
  (forall alt, In alt alts -> (Fits H x alt <-> alt = SOp C [SVar 1])).
Proof. exact keys_C_stmt. Qed.
Print Assumptions C06_engine_keys_C.

Theorem C06_engine_keys_base : forall H, wf_hier H -> forall C R t fuel sc,
  variance H C = [true] -> variance H R = [true; true] ->
  variance H t = [] -> t <> Bottom -> 9 <= fuel ->
  let alts := [SOp C [SVar 1]; SOp R [SVar 1; SWild]] in
  let x := TOp t [] in
  let r := run_cmds H fuel
             [CInst (mkSchema 2 (SOp Function [SVar 0; SOp C [SVar 1]]) [SCElim (SVar 0) alts]);
              CInst (mkSchema 0 (SOp t []) []);
              CApply 0 1 true] 0 [] (empty_store sc) in
  fst r = (Some (EConstraintViolation, 2), [O Function [V 0; O C [V 1]]; O t []]) /\
  accept_spec H x alts = false /\
  filter (fitsb H x) alts = [] /\
  (forall alt, In alt alts -> ~ Fits H x alt).
Proof. exact keys_base_stmt. Qed.
Print Assumptions C06_engine_keys_base.

Theorem C06_engine_keys_reject : forall H, wf_hier H -> forall C R x fuel sc,
  variance H C = [true] -> variance H R = [true; true] -> wf_ty H x ->
  ty_op x <> Bottom -> ty_op x <> C -> ty_op x <> R -> 9 <= fuel -> ty_depth x + 3 <= fuel ->
  let alts := [SOp C [SVar 1]; SOp R [SVar 1; SWild]] in
  let r := run_cmds H fuel
             [CInst (mkSchema 2 (SOp Function [SVar 0; SOp C [SVar 1]]) [SCElim (SVar 0) alts]);
              CInst (mkSchema 0 (sconc x) []);
              CApply 0 1 true] 0 [] (empty_store sc) in
  fst r = (Some (EConstraintViolation, 2), [O Function [V 0; O C [V 1]]; inj x]) /\
  accept_spec H x alts = false /\
  filter (fitsb H x) alts = [] /\
  (forall alt, In alt alts -> ~ Fits H x alt).
Proof. exact keys_reject_stmt. Qed.
Print Assumptions C06_engine_keys_reject.

(* boundary: Bottom fits both alternatives; accepted, b (variable 1) undetermined *)
Theorem C06_engine_keys_bottom : forall H, wf_hier H -> forall C R fuel sc,
  variance H C = [true] -> variance H R = [true; true] -> 9 <= fuel ->
  let alts := [SOp C [SVar 1]; SOp R [SVar 1; SWild]] in
  let x := TOp Bottom [] in
  let r := run_cmds H fuel
             [CInst (mkSchema 2 (SOp Function [SVar 0; SOp C [SVar 1]]) [SCElim (SVar 0) alts]);
              CInst (mkSchema 0 (SOp Bottom []) []);
              CApply 0 1 true] 0 [] (empty_store sc) in
  fst r = (None, [O Function [V 0; O C [V 1]]; O Bottom []; O C [V 1]]) /\
  cell_of (snd r) 1 = mkCell false None None None 1 /\
  accept_spec H x alts = true /\ filter (fitsb H x) alts = alts.
Proof. exact keys_bottom_stmt. Qed.
Print Assumptions C06_engine_keys_bottom.

(* exact final stores (everything observable can be computed from them):
   [st3u sc F t]: a := F(b), b := t with lower bound t (none for Top), constraint fulfilled;
   [st3k_R sc R t1 t2]: a := R(t1, t2), b := t1, the wildcard only bounded below by
   t2, the constraint reduced to [R(b, _)] and fulfilled *)
Theorem C06_engine_unary_pattern_exact : forall H, wf_hier H -> forall F t fuel sc,
  variance H F = [true] -> variance H t = [] -> t <> Bottom -> 9 <= fuel ->
  run_cmds H fuel
    [CInst (mkSchema 2 (SOp Function [SVar 0; SVar 1]) [SCElim (SVar 0) [SOp F [SVar 1]]]);
     CInst (mkSchema 0 (SOp F [SOp t []]) []);
     CApply 0 1 true] 0 [] (empty_store sc) =
  (None, [O Function [V 0; V 1]; O F [O t []]; O t []],
   mkStore [mkCell false (Some (O F [V 1])) None None 0;
            mkCell false (Some (O t [])) (if Nat.eqb t Top then None else Some t) None 0]
           [[]; [0]]
           [mkConstr true (V 0) [O F [V 1]] false true] sc).
Proof. exact engine_unary_ok. Qed.
Print Assumptions C06_engine_unary_pattern_exact.

Theorem C06_engine_keys_exact : forall H, wf_hier H -> forall C R t1 t2 fuel sc,
  variance H C = [true] -> variance H R = [true; true] ->
  (variance H t1 = [] /\ t1 <> Top /\ t1 <> Bottom) ->
  (variance H t2 = [] /\ t2 <> Top /\ t2 <> Bottom) -> 9 <= fuel ->
  run_cmds H fuel
    [CInst (mkSchema 2 (SOp Function [SVar 0; SOp C [SVar 1]])
                     [SCElim (SVar 0) [SOp C [SVar 1]; SOp R [SVar 1; SWild]]]);
     CInst (mkSchema 0 (SOp R [SOp t1 []; SOp t2 []]) []);
     CApply 0 1 true] 0 [] (empty_store sc) =
  (None, [O Function [V 0; O C [V 1]]; O R [O t1 []; O t2 []]; O C [V 1]],
   mkStore [mkCell false (Some (O R [O t1 []; O t2 []])) None None 0;
            mkCell false (Some (O t1 [])) (Some t1) None 1;
            mkCell false None (Some t2) None 2]
           [[]; []; []]
           [mkConstr true (O R [O t1 []; O t2 []]) [O R [V 1; V 2]] false true] sc).
Proof. exact engine_keys_R. Qed.
Print Assumptions C06_engine_keys_exact.

(* ---------- tools of the proofs worth exporting ---------- *)

(* the instance of a variable-free schema is the concrete type, store unchanged *)
Theorem C06_instance_concrete : forall H x fuel s, ty_depth x < fuel ->
  instance H fuel (mkSchema 0 (sconc x) []) s = MOk (inj x) s.
Proof. exact instance_conc. Qed.
Print Assumptions C06_instance_concrete.

(* against a flat pattern G(v1, ..., vn) (vi variables or wildcards) with a
   compound head, only the head operator of the argument matters *)
Theorem C06_fitsb_flat : forall H, wf_hier H -> forall ox xs op ps,
  variance H op <> [] -> Forall (fun p => match p with SOp _ _ => False | _ => True end) ps ->
  fitsb H (TOp ox xs) (SOp op ps) = Nat.eqb ox Bottom || Nat.eqb ox op.
Proof. exact fitsb_flat. Qed.
Print Assumptions C06_fitsb_flat.

(* ---------- non-vacuity ---------- *)
(* Ord=5, Obj=6 unrelated; Nom=7 < Ord; C=8 unary, R=9 binary, K=10 unary, all covariant *)
Definition exP : hier := mk_hier [(7,5)] [(8,[true]); (9,[true;true]); (10,[true])].
Example exP_wf : wf_hier exP.
Proof.
  split.
  - intros o p. cbn. repeat (destruct o as [|o]; try discriminate; cbn); intros [= <-]; auto with arith.
  - intros o p. cbn. repeat (destruct o as [|o]; try discriminate; cbn); intros [= <-]; cbn; repeat split; discriminate.
  - split; reflexivity.
  - split; reflexivity.
  - reflexivity.
Qed.

Example C06_pat_hyps :
  variance exP 8 = [true] /\ variance exP 9 = [true; true] /\
  (variance exP 5 = [] /\ 5 <> Top /\ 5 <> Bottom) /\
  (variance exP 6 = [] /\ 6 <> Top /\ 6 <> Bottom) /\ 9 <= 9 /\
  (* hypotheses of the reject theorems on K(Nom) *)
  wf_ty exP (TOp 10 [TOp 7 []]) /\ ty_op (TOp 10 [TOp 7 []]) <> Bottom /\
  ty_op (TOp 10 [TOp 7 []]) <> 8 /\ ty_op (TOp 10 [TOp 7 []]) <> 9 /\
  ty_depth (TOp 10 [TOp 7 []]) + 3 <= 9.
Proof.
  repeat split; try discriminate; auto with arith.
Qed.

(* the engine model itself on the tutorial instance (fuel 9):
   keys applied to R(Ord, Obj) gives C(Ord); to C(Nom) gives C(Nom);
   to Ord, to K(Nom): ConstraintViolation;  F = C applied to C(Nom) gives Nom *)
Definition ex_keys (x : sty) :=
  let r := run_cmds exP 9
             [CInst (mkSchema 2 (SOp Function [SVar 0; SOp 8 [SVar 1]])
                              [SCElim (SVar 0) [SOp 8 [SVar 1]; SOp 9 [SVar 1; SWild]]]);
              CInst (mkSchema 0 x []); CApply 0 1 true] 0 [] (empty_store []) in
  (fst (fst r), deep 3 (snd r) (last (snd (fst r)) (V 0))).
Definition ex_unary (x : sty) :=
  let r := run_cmds exP 9
             [CInst (mkSchema 2 (SOp Function [SVar 0; SVar 1]) [SCElim (SVar 0) [SOp 8 [SVar 1]]]);
              CInst (mkSchema 0 x []); CApply 0 1 true] 0 [] (empty_store []) in
  (fst (fst r), deep 3 (snd r) (last (snd (fst r)) (V 0))).
Example C06_pat_engine :
  ex_keys (SOp 9 [SOp 5 []; SOp 6 []]) = (None, O 8 [O 5 []]) /\
  ex_keys (SOp 8 [SOp 7 []]) = (None, O 8 [O 7 []]) /\
  fst (ex_keys (SOp 5 [])) = Some (EConstraintViolation, 2) /\
  fst (ex_keys (SOp 10 [SOp 7 []])) = Some (EConstraintViolation, 2) /\
  ex_unary (SOp 8 [SOp 7 []]) = (None, O 7 []) /\
  fst (ex_unary (SOp 7 [])) = Some (ESubtypeMismatch, 2) /\
  fst (ex_unary (SOp 10 [SOp 7 []])) = Some (ETypeMismatch, 2) /\
  ex_unary (SOp 8 [SOp 1 []]) = (None, V 1).
Proof. vm_compute. repeat split; reflexivity. Qed.

(* the fuel bound 9 is the least uniform one for keys: fuel 8 runs out *)
Example C06_pat_fuel :
  fst (fst (run_cmds exP 8
     [CInst (mkSchema 2 (SOp Function [SVar 0; SOp 8 [SVar 1]])
                      [SCElim (SVar 0) [SOp 8 [SVar 1]; SOp 9 [SVar 1; SWild]]]);
      CInst (mkSchema 0 (SOp 9 [SOp 5 []; SOp 6 []]) []); CApply 0 1 true] 0 [] (empty_store [])))
  = Some (EFuel, 2).
Proof. vm_compute. reflexivity. Qed.
