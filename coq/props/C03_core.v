(* C03 (core)  Every accepted polymorphic application has a witnessing
   instantiation - the UNCONDITIONAL statement for the constraint-free
   fragment P of the engine model (Infer/Engine.v): programs of CInst / CApply
   commands whose schemas have s_constrs = [] ([progP]; schemas well-scoped and
   arity-correct, as TypeOperation.__init__ enforces).  Proofs: Infer/Sound.v.

   Semantics ([sat H th s], th : nat -> ty):  every th v is a well-formed type;
   a bound variable denotes its binding (th v = den th t, where [den th]
   substitutes th for the variables of a term); an unbound variable with lower
   bound l denotes a base type b with l <= b in the operator order
   ([Lub.ole] = the order decided by TypeOperator.subtype; [C03_core_sat_Sub]
   restates it with [Sub]); likewise b <= u for an upper bound u.
   Under [sat] the denotation commutes with following bindings
   ([C03_core_den_follow]) and is the same in every store th satisfies.

   C03_core_sound: for EVERY satisfying grounding of the final store of an
   accepted program, every application step (f, x, r) has
   den f = Function [a; b] with Sub (den x) a and den r = b  (or den f = Top
   = den r): StepHolds for every grounding, not only the enumerated ones
   ([C03_core_StepHolds] is the same statement about Witness.StepHolds).
   C03_core_satisfiable: a satisfying grounding exists (every assignment of the
   unbound variables within their bounds extends to one: [C03_core_extend]),
   so the statement is not vacuous.
   C03_core_bounded: a variable that carries a bound is never bound to a
   compound type.
   C03_core_unify_sound / bind / above / below / fix / apply: the per-operation
   statements (one induction on fuel, [C03_core_ops]): a successful operation
   s ~> s' only refines the store ([le]: sat th s' -> sat th s) and every
   grounding of s' satisfies the operation's meaning.

   Only successful operations are specified: after an error the store need not
   refine the initial one ([C03_core_error_store_not_refined]: bind records the
   binding before it checks the bounds); run_cmds stops at the first error.

   Missing for full C03: schemas with constraints (check_constraints / fulfill
   / minimize are no-ops here because every constraint set stays empty), the
   skip flags of unify (used only by constraint fulfilment) and sub=false
   (CUnify; note unify(Bottom, t, subtype=False) succeeds in the code, so the
   equality reading fails there). *)
From Coq Require Import List Arith Bool.
Import ListNotations.
From TF Require Import Base.Hier Base.Ty Sub.SubSpec Infer.Store Infer.Engine Infer.Run
  Infer.Witness Infer.Check Infer.Inv Infer.Sound.

(* ---- the main theorem ---- *)
Theorem C03_core_sound : forall H, wf_hier H ->
  forall fuel sc prog vals s, progP H 0 prog ->
  run_cmds H fuel prog 0 [] (empty_store sc) = (None, vals, s) ->
  forall th, sat H th s ->
  forall f x r, In (f, x, r) (steps_of prog 0) ->
    (exists a b, den th (val vals f) = TOp Function [a; b] /\
                 Sub H (den th (val vals x)) a /\ den th (val vals r) = b) \/
    (den th (val vals f) = TOp Top [] /\ den th (val vals r) = TOp Top []).
Proof. exact core_sound. Qed.
Print Assumptions C03_core_sound.

(* the same about the executable grounding of Witness.v: StepHolds for every
   list-grounding that keeps the unresolved variables within their bounds *)
Theorem C03_core_StepHolds : forall H, wf_hier H ->
  forall fuel sc prog vals s, progP H 0 prog ->
  run_cmds H fuel prog 0 [] (empty_store sc) = (None, vals, s) ->
  forall thl dflt,
    (forall v, c_bound (cell_of s v) = None ->
       wf_ty H (th_get thl dflt v) /\ inb H (cell_of s v) (th_get thl dflt v)) ->
  forall f x r, In (f, x, r) (steps_of prog 0) ->
  forall fuel' df dx dr,
    ground fuel' s thl dflt (val vals f) = Some df ->
    ground fuel' s thl dflt (val vals x) = Some dx ->
    ground fuel' s thl dflt (val vals r) = Some dr ->
    StepHolds H fuel' s thl dflt (val vals f, val vals x, val vals r).
Proof. exact core_StepHolds. Qed.
Print Assumptions C03_core_StepHolds.

Theorem C03_core_satisfiable : forall H, wf_hier H ->
  forall fuel sc prog vals s, progP H 0 prog ->
  run_cmds H fuel prog 0 [] (empty_store sc) = (None, vals, s) ->
  exists th, sat H th s /\
    (* the canonical choice: lower bound, else upper bound, else Top *)
    forall v, c_bound (cell_of s v) = None ->
      th v = match c_lower (cell_of s v), c_upper (cell_of s v) with
             | Some l, _ => TOp l []
             | None, Some u => TOp u []
             | None, None => TOp Top []
             end.
Proof. exact core_satisfiable. Qed.
Print Assumptions C03_core_satisfiable.

(* any assignment g of the unbound variables within their bounds extends to a
   satisfying grounding (wsc: bindings well-scoped and acyclic, Infer/Inv.v) *)
Theorem C03_core_extend : forall H, wf_hier H -> forall s g, wsc s -> J H s ->
  (forall v, c_bound (cell_of s v) = None -> wf_ty H (g v) /\ inb H (cell_of s v) (g v)) ->
  exists th, sat H th s /\ forall v, c_bound (cell_of s v) = None -> th v = g v.
Proof. exact sat_extend. Qed.
Print Assumptions C03_core_extend.

Theorem C03_core_bounded : forall H, wf_hier H ->
  forall fuel sc prog vals s, progP H 0 prog ->
  run_cmds H fuel prog 0 [] (empty_store sc) = (None, vals, s) ->
  forall v t o args, c_bound (cell_of s v) = Some t ->
    (c_lower (cell_of s v) <> None \/ c_upper (cell_of s v) <> None) ->
    follow s t = O o args -> args = [].
Proof. exact core_bounded. Qed.
Print Assumptions C03_core_bounded.

(* the mechanism behind it: bind raises TypeMismatch *)
Theorem C03_core_bind_rejects_compound : forall H f v o args s,
  c_bound (cell_of s v) = None ->
  (c_lower (cell_of s v) <> None \/ c_upper (cell_of s v) <> None) -> basic H o = false ->
  exists s', bind H (S f) v (O o args) s = MEr ETypeMismatch s'.
Proof. exact bind_bounded_compound. Qed.
Print Assumptions C03_core_bind_rejects_compound.

(* the final store satisfies the forward invariant, refines the empty store,
   and the values are well-scoped and arity-correct *)
Theorem C03_core_final : forall H, wf_hier H ->
  forall fuel sc prog vals s, progP H 0 prog ->
  run_cmds H fuel prog 0 [] (empty_store sc) = (None, vals, s) ->
  J H s /\ lef H (empty_store sc) s /\ Forall (tg H (length (vars s))) vals.
Proof. exact core_final. Qed.
Print Assumptions C03_core_final.

(* ---- semantics ---- *)
Theorem C03_core_den_follow : forall H th s t, sat H th s -> den th (follow s t) = den th t.
Proof. exact den_follow. Qed.
Print Assumptions C03_core_den_follow.

Theorem C03_core_den_stable : forall H th s s' t, sat H th s' -> le H s s' ->
  sat H th s /\ den th (follow s' t) = den th t /\ den th (follow s t) = den th t.
Proof. exact den_stable. Qed.
Print Assumptions C03_core_den_stable.

Theorem C03_core_sat_Sub : forall H th s, J H s -> sat H th s ->
  forall v, c_bound (cell_of s v) = None ->
  (forall l, c_lower (cell_of s v) = Some l ->
     exists b, th v = TOp b [] /\ Sub H (TOp l []) (TOp b [])) /\
  (forall u, c_upper (cell_of s v) = Some u ->
     exists b, th v = TOp b [] /\ Sub H (TOp b []) (TOp u [])).
Proof. exact sat_Sub. Qed.
Print Assumptions C03_core_sat_Sub.

(* ---- the engine operations: refinement (monotonicity) and soundness ----
   [le H s s'] = length (vars s) <= length (vars s') /\ forall th, sat H th s' -> sat H th s
   [fr H s s'] = bound variables stay bound and keep their bounds; a variable
                 carrying a bound when it is bound denotes a base type
   [J H s]     = constraint sets empty, bindings well-scoped and arity-correct,
                 bounds are proper base operators with lower <= upper
   [tg H n t]  = variables of t below n, every operator applied to arity many arguments *)
Theorem C03_core_ops : forall H, wf_hier H -> forall fuel, specs H fuel.
Proof. exact specs_all. Qed.
Print Assumptions C03_core_ops.

Theorem C03_core_unify_sound : forall H, wf_hier H -> forall fuel a b s s',
  J H s -> tg H (length (vars s)) a -> tg H (length (vars s)) b ->
  unify H fuel true false false a b s = MOk tt s' ->
  J H s' /\ le H s s' /\ fr H s s' /\
  forall th, sat H th s' -> Sub H (den th a) (den th b).
Proof. exact unify_sound_x. Qed.
Print Assumptions C03_core_unify_sound.

(* [cmpb]: a base operator bound to a bounded variable is comparable with the
   bounds (the code only rejects "strictly on the wrong side"; every call in
   subtype mode satisfies it) *)
Theorem C03_core_bind_sound : forall H, wf_hier H -> forall fuel v t s s',
  J H s -> v < length (vars s) -> tg H (length (vars s)) t ->
  (forall o args, t = O o args -> basic H o = true -> cmpb H (cell_of s v) o) ->
  bind H fuel v t s = MOk tt s' ->
  J H s' /\ le H s s' /\ fr H s s' /\ forall th, sat H th s' -> th v = den th t.
Proof. exact bind_sound_x. Qed.
Print Assumptions C03_core_bind_sound.

Theorem C03_core_above_sound : forall H, wf_hier H -> forall fuel v new s s',
  J H s -> v < length (vars s) -> variance H new = [] -> new <> Bottom ->
  above H fuel v new s = MOk tt s' ->
  J H s' /\ le H s s' /\ fr H s s' /\
  forall th, sat H th s' -> exists b, th v = TOp b [] /\ Lub.ole H new b.
Proof. exact above_sound_x. Qed.
Print Assumptions C03_core_above_sound.

Theorem C03_core_below_sound : forall H, wf_hier H -> forall fuel v new s s',
  J H s -> v < length (vars s) -> variance H new = [] -> new <> Top ->
  below H fuel v new s = MOk tt s' ->
  J H s' /\ le H s s' /\ fr H s s' /\
  forall th, sat H th s' -> exists b, th v = TOp b [] /\ Lub.ole H b new.
Proof. exact below_sound_x. Qed.
Print Assumptions C03_core_below_sound.

Theorem C03_core_fix_sound : forall H, wf_hier H -> forall fuel pl t s r s',
  J H s -> tg H (length (vars s)) t -> fix_ty H fuel pl t s = MOk r s' ->
  tg H (length (vars s')) r /\ J H s' /\ le H s s' /\ fr H s s' /\
  forall th, sat H th s' -> den th r = den th t.
Proof. exact fix_sound_x. Qed.
Print Assumptions C03_core_fix_sound.

Theorem C03_core_apply_sound : forall H, wf_hier H -> forall fuel f x fixb s r s',
  J H s -> tg H (length (vars s)) f -> tg H (length (vars s)) x ->
  apply H fuel f x fixb s = MOk r s' ->
  tg H (length (vars s')) r /\ J H s' /\ le H s s' /\ fr H s s' /\
  forall th, sat H th s' -> StepSem H th f x r.
Proof. exact apply_good_x. Qed.
Print Assumptions C03_core_apply_sound.

(* ---------- non-vacuity ---------- *)
(* A = 5, B = 6 < A, F = 7 unary covariant *)
Definition exH := mk_hier [(6,5)] [(7,[true])].
Example exH_wf : wf_hier exH.
Proof.
  split.
  - intros o p. cbn. repeat (destruct o as [|o]; try discriminate; cbn); intros [= <-]; auto with arith.
  - intros o p. cbn. repeat (destruct o as [|o]; try discriminate; cbn); intros [= <-]; cbn; repeat split; discriminate.
  - split; reflexivity.
  - split; reflexivity.
  - reflexivity.
Qed.

Definition conc (t : sty) := mkSchema 0 t [].
(* f : F(x) ** y ** x ** y   applied to F(B), then to A, results not fixed:
   x and y stay unresolved with lower bounds B and A *)
Definition sigF := mkSchema 2
  (SOp Function [SOp 7 [SVar 0]; SOp Function [SVar 1; SOp Function [SVar 0; SVar 1]]]) [].
Definition ex_prog := [CInst sigF; CInst (conc (SOp 7 [SOp 6 []])); CApply 0 1 false;
                       CInst (conc (SOp 5 [])); CApply 2 3 false].
Definition ex_run := Eval vm_compute in run_cmds exH 100 ex_prog 0 [] (empty_store []).
Definition ex_vals := snd (fst ex_run).
Definition ex_s := snd ex_run.

Example ex_progP : progP exH 0 ex_prog.
Proof.
  cbn [progP ex_prog]. repeat split; try (constructor; auto with arith; fail).
  - constructor; [reflexivity|]. cbn [s_n s_body sigF].
    repeat (constructor; cbn; auto with arith).
  - constructor; [reflexivity|]. repeat (constructor; cbn; auto with arith).
  - constructor; [reflexivity|]. repeat (constructor; cbn; auto with arith).
Qed.

Example ex_accepted : run_cmds exH 100 ex_prog 0 [] (empty_store []) = (None, ex_vals, ex_s).
Proof. vm_compute. reflexivity. Qed.

Example ex_steps : steps_of ex_prog 0 = [(0, 1, 2); (2, 3, 4)].
Proof. reflexivity. Qed.

(* the final store: x = V 0 unbound with lower bound B, y = V 1 unbound with lower bound A *)
Example ex_store : map (fun c => (c_bound c, c_lower c, c_upper c)) (vars ex_s) =
  [(None, Some 6, None); (None, Some 5, None)].
Proof. reflexivity. Qed.

(* one satisfying grounding that is NOT the canonical one: x := A (above its bound B), y := Top *)
Definition ex_th (v : nat) : ty := match v with 0 => TOp 5 [] | _ => TOp Top [] end.
Example ex_sat : sat exH ex_th ex_s.
Proof.
  intros v. destruct v as [|[|v]]; cbn.
  - split; [auto|]. split; intros x [= <-]. exists 5. split; [reflexivity|].
    right; right. eapply anc_step; [reflexivity|apply anc_refl].
  - split; [auto|]. split; intros x [= <-]. exists Top. split; [reflexivity|].
    right; left; reflexivity.
  - split; [auto|]. destruct v; cbn; split; intros x [=].
Qed.

(* and the theorem applied to it: the second step passes A to the parameter y := Top
   and returns x ** y = A ** Top *)
Example ex_step2 :
  den ex_th (val ex_vals 2) = TOp Function [TOp Top []; TOp Function [TOp 5 []; TOp Top []]] /\
  den ex_th (val ex_vals 3) = TOp 5 [] /\
  den ex_th (val ex_vals 4) = TOp Function [TOp 5 []; TOp Top []].
Proof. repeat split. Qed.

(* Errors: the store left by a failed operation need not refine the one before.
   g : (x ** Unit) ** x ** x  applied to (B ** Unit) gives x the UPPER bound B;
   applying the result to Top fails with SubtypeMismatch, but bind has already
   recorded x := Top. *)
Definition sigc := mkSchema 1
  (SOp Function [SOp Function [SVar 0; SOp Unit []]; SOp Function [SVar 0; SVar 0]]) [].
Definition err_pre := [CInst sigc; CInst (conc (SOp Function [SOp 6 []; SOp Unit []])); CApply 0 1 false;
                       CInst (conc (SOp Top []))].
Definition err_s0 := Eval vm_compute in snd (run_cmds exH 100 err_pre 0 [] (empty_store [])).
Definition err_vals := Eval vm_compute in snd (fst (run_cmds exH 100 err_pre 0 [] (empty_store []))).
Definition err_s1 := Eval vm_compute in
  match apply exH 100 (val err_vals 2) (val err_vals 3) false err_s0 with
  | MOk _ s => s | MEr _ s => s end.
Example C03_core_error_store_not_refined :
  (exists s', apply exH 100 (val err_vals 2) (val err_vals 3) false err_s0 = MEr ESubtypeMismatch s' /\ s' = err_s1) /\
  exists th, sat exH th err_s1 /\ ~ sat exH th err_s0.
Proof.
  split; [eexists; split; vm_compute; reflexivity|].
  exists (fun _ => TOp Top []). split.
  - intros v. destruct v as [|v]; cbn; [split; auto|]. split; [auto|]. destruct v; cbn; split; intros x [=].
  - intros S. destruct (S 0) as [_ [_ Su]]. destruct (Su 6 eq_refl) as (b & [= <-] & [E|[E|A]]);
      try discriminate. inversion A as [|? ? ? Hp _]; subst. discriminate.
Qed.

(* why there is no "equality" reading for subtype=False: the Bottom/Top shortcut of
   unify does not look at the flag (type.py: `if a.operator is Bottom or b.operator is Top: return`) *)
Example ex_unify_nosub_bottom :
  unify exH 10 false false false (O Bottom []) (O 5 []) (empty_store []) = MOk tt (empty_store []).
Proof. reflexivity. Qed.
