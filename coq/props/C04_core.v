(* C04 (core)  Every expression that parses is well-typed at every application
   node - the UNCONDITIONAL statement for expressions whose leaves carry
   constraint-free signatures.  Proofs: Infer/ExprSound.v (on top of
   Infer/Sound.v, the proof behind C03_core).

   Expression trees:  [expr] = operator leaf [EOp sc] (sc its declared
   signature), source [ESrc t] (typed `- : t` or, with t = SWild, untyped `-`;
   its type is the one-off schema [src_schema t] over the variables of t),
   application [EApp f x].
   [compile e n] = (commands, value index of the node, next free index) is the
   construction sequence of the tree in the parser's order (leaf -> CInst;
   application -> function part, argument, CApply vf vx true): what
   harness/c04.py's Compiler.build emits and the correspondence check runs on
   transforge (Language.parse_expr / Application.__init__).
   [prog_of e] = the commands of [compile e 0].
   [leaves_ok H e]: every operator leaf has s_constrs = [] and a well-scoped,
   arity-correct body; every source type is arity-correct.

   C04_compile_wf     the compiled program lies in fragment P of C03_core
                      ([progP]) and is well-scoped ([prog_wf]); the node's value
                      is the last one pushed.
   C04_nodes_covered  the application steps of the program are exactly
                      [nodes e] - one (function, argument, node) index triple per
                      EApp node, pairwise distinct node indices, as many as there
                      are EApp nodes - and its CInst commands are exactly
                      [leaves e];  C04_nodes_occ / C04_leaves_occ say which
                      triple belongs to which sub-expression occurrence ([occ]).
   C04_core           if the engine model accepts the expression, then under
                      EVERY grounding th satisfying the final store ([sat], see
                      props/C03_core.v) every application node has
                      den f = Function [a; b], Sub (den x) a, den node = b
                      (or den f = Top = den node).  C04_core_occ: the same
                      quantified over the sub-expression occurrences EApp f x.
   C04_leaf_instance  every leaf's value denotes a substitution instance of its
                      declared signature body ([sinst]: sigma i for SVar i, any
                      well-formed type for each wildcard occurrence; for a
                      wildcard-free body den = [ssubst] sigma body).
   C04_satisfiable    an accepted expression has a satisfying grounding.
   C04_core_rejects_example   f (-: C) (-: G(A, C)) with f : x ** x ** x is
                      rejected by the model (TypeMismatch at the second apply).

   The denotation of a value is the same in every store the grounding
   satisfies (C03_core_den_stable), so the statements about the FINAL store
   also cover the values as they were when each node was built.

   Part 2 (the C04_full theorems): the whole program harness/c04.py's compile_case emits
   and the correspondence check runs on transforge - [xexpr] adds numbered
   inputs [XIn i], annotations [XAnn e T] (CInst T; CUnify ve vT true), the
   self-unification of a typed source (`- : T` parses to T.unify(T)), data
   operators instantiated as sources, and [xprog inputs e] = input instances ++
   Compiler.build ++ the fix traversal of Expr.fix ([fixc]: CFix v false for a
   source, CFix v true for an application, post-order).
   C04_prog_sound     C03_core_sound extended to programs with CUnify (subtype
                      mode) and CFix commands ([progQ]): besides the application
                      steps, every unify (a, b) has Sub (den a) (den b), every
                      fix result denotes what its argument denotes, every CInst
                      denotes an instance of its schema body.
   C04_full_compile_wf  xprog inputs e is in that class and well-scoped.
   C04_full           for an accepted xprog, under EVERY satisfying grounding:
                      inputs are instances of their declared types; [xsem]: every
                      application node is well-typed, every operator leaf and
                      source is an instance of its signature, every annotated
                      sub-expression denotes a subtype of (an instance of) its
                      annotation; and AFTER the fix traversal the tree of re-fixed
                      values ([fixed]) is well-typed at every application node
                      ([nsem]) with the same denotation at the root.
   C04_closed_annotation  an instance of a closed wildcard-free T denotes T itself.

   Missing for full C04: operators with constraints (same gap as C03_core:
   check_constraints / fulfill / minimize are outside fragment P).  The
   statement is about the model of the construction sequence; that sequence is
   tied to Language.parse_expr / Expr.fix by the correspondence check, not by
   proof (the tokenizer/parser is not modelled here). *)
From Coq Require Import List Arith Bool.
Import ListNotations.
From TF Require Import Base.Hier Base.Ty Sub.SubSpec Infer.Store Infer.Engine Infer.Run
  Infer.Witness Infer.Check Infer.Inv Infer.Sound Infer.ExprSound.

(* (a) *)
Theorem C04_compile_wf : forall H e, leaves_ok H e -> forall n,
  let '(cs, v, n') := compile e n in
  progP H n cs /\ prog_wf n cs /\ length cs = size e /\ v = n + size e - 1 /\ n' = n + size e.
Proof. exact compile_wf. Qed.
Print Assumptions C04_compile_wf.

(* (b) *)
Theorem C04_nodes_covered : forall e n,
  let '(cs, v, n') := compile e n in
  steps_of cs n = nodes e n /\ insts_of cs n = leaves e n /\
  length (nodes e n) = napps e /\ NoDup (map snd (nodes e n)).
Proof. exact nodes_covered. Qed.
Print Assumptions C04_nodes_covered.

Theorem C04_nodes_occ : forall e n a b c,
  In (a, b, c) (nodes e n) <->
  exists f x m, occ e n (EApp f x) m /\
    a = vidx f m /\ b = vidx x (m + size f) /\ c = vidx (EApp f x) m.
Proof. exact nodes_occ. Qed.
Print Assumptions C04_nodes_occ.

Theorem C04_leaves_occ : forall e n k sc,
  In (k, sc) (leaves e n) <-> exists g, occ e n g k /\ leaf_schema g = Some sc.
Proof. exact leaves_occ. Qed.
Print Assumptions C04_leaves_occ.

(* (c) *)
Theorem C04_core : forall H, wf_hier H ->
  forall e fuel sc vals s, leaves_ok H e ->
  run_cmds H fuel (prog_of e) 0 [] (empty_store sc) = (None, vals, s) ->
  forall th, sat H th s ->
  forall f x r, In (f, x, r) (nodes e 0) ->
    (exists a b, den th (val vals f) = TOp Function [a; b] /\
                 Sub H (den th (val vals x)) a /\ den th (val vals r) = b) \/
    (den th (val vals f) = TOp Top [] /\ den th (val vals r) = TOp Top []).
Proof. exact expr_core. Qed.
Print Assumptions C04_core.

Theorem C04_core_occ : forall H, wf_hier H ->
  forall e fuel sc vals s, leaves_ok H e ->
  run_cmds H fuel (prog_of e) 0 [] (empty_store sc) = (None, vals, s) ->
  forall th, sat H th s ->
  forall f x m, occ e 0 (EApp f x) m ->
    let tf := den th (val vals (vidx f m)) in
    let tx := den th (val vals (vidx x (m + size f))) in
    let tr := den th (val vals (vidx (EApp f x) m)) in
    (exists a b, tf = TOp Function [a; b] /\ Sub H tx a /\ tr = b) \/
    (tf = TOp Top [] /\ tr = TOp Top []).
Proof. exact expr_core_occ. Qed.
Print Assumptions C04_core_occ.

(* (d) *)
Theorem C04_leaf_instance : forall H, wf_hier H ->
  forall e fuel sc vals s, leaves_ok H e ->
  run_cmds H fuel (prog_of e) 0 [] (empty_store sc) = (None, vals, s) ->
  forall th, sat H th s ->
  forall k sch, In (k, sch) (leaves e 0) ->
    exists sigma, (forall i, wf_ty H (sigma i)) /\
      sinst H sigma (s_body sch) (den th (val vals k)) /\
      (nowild (s_body sch) = true -> den th (val vals k) = ssubst sigma (s_body sch)).
Proof. exact leaf_instance. Qed.
Print Assumptions C04_leaf_instance.

Theorem C04_leaf_instance_occ : forall H, wf_hier H ->
  forall e fuel sc vals s, leaves_ok H e ->
  run_cmds H fuel (prog_of e) 0 [] (empty_store sc) = (None, vals, s) ->
  forall th, sat H th s ->
  forall g m sch, occ e 0 g m -> leaf_schema g = Some sch ->
    exists sigma, (forall i, wf_ty H (sigma i)) /\
      sinst H sigma (s_body sch) (den th (val vals m)) /\
      (nowild (s_body sch) = true -> den th (val vals m) = ssubst sigma (s_body sch)).
Proof. exact leaf_instance_occ. Qed.
Print Assumptions C04_leaf_instance_occ.

(* the per-operation fact behind (d): a constraint-free instance denotes a
   substitution instance of the schema body in every store that refines the
   one it was made in *)
Theorem C04_instance_inst : forall H, wf_hier H -> forall fuel sc s r s',
  J H s -> s_constrs sc = [] -> styg H (s_n sc) (s_body sc) ->
  instance H fuel sc s = MOk r s' ->
  forall th, sat H th s' ->
    exists sigma, (forall i, wf_ty H (sigma i)) /\ sinst H sigma (s_body sc) (den th r).
Proof. intros H W fuel sc s r s' I Nc Sb E. exact (instance_inst H W fuel sc s I Nc Sb r s' E). Qed.
Print Assumptions C04_instance_inst.

Theorem C04_satisfiable : forall H, wf_hier H ->
  forall e fuel sc vals s, leaves_ok H e ->
  run_cmds H fuel (prog_of e) 0 [] (empty_store sc) = (None, vals, s) ->
  exists th, sat H th s.
Proof. exact expr_satisfiable. Qed.
Print Assumptions C04_satisfiable.

(* ---------- part 2: inputs, annotations, fix traversal ---------- *)
Theorem C04_prog_sound : forall H, wf_hier H ->
  forall fuel sc prog vals s, progQ H 0 prog ->
  run_cmds H fuel prog 0 [] (empty_store sc) = (None, vals, s) ->
  forall th, sat H th s ->
  (forall f x r, In (f, x, r) (steps_of prog 0) ->
     (exists a b, den th (val vals f) = TOp Function [a; b] /\
                  Sub H (den th (val vals x)) a /\ den th (val vals r) = b) \/
     (den th (val vals f) = TOp Top [] /\ den th (val vals r) = TOp Top [])) /\
  (forall k sch, In (k, sch) (insts_of prog 0) ->
     exists sigma, (forall i, wf_ty H (sigma i)) /\ sinst H sigma (s_body sch) (den th (val vals k))) /\
  (forall a b, In (a, b) (unifs_of prog) -> Sub H (den th (val vals a)) (den th (val vals b))) /\
  (forall a r, In (a, r) (fixes_of prog 0) -> den th (val vals r) = den th (val vals a)).
Proof. exact prog_sound_obs. Qed.
Print Assumptions C04_prog_sound.

Theorem C04_full_compile_wf : forall H inputs e,
  Forall (fun t => styg H (sbound t) t) inputs -> xok H (length inputs) e ->
  progQ H 0 (xprog inputs e) /\ prog_wf 0 (xprog inputs e).
Proof.
  intros H inputs e Fi K. pose proof (xprog_ok H inputs e Fi K) as P.
  split; [exact P|apply (progQ_wf H); exact P].
Qed.
Print Assumptions C04_full_compile_wf.

Theorem C04_full : forall H, wf_hier H ->
  forall inputs e fuel sc vals s,
  Forall (fun t => styg H (sbound t) t) inputs -> xok H (length inputs) e ->
  run_cmds H fuel (xprog inputs e) 0 [] (empty_store sc) = (None, vals, s) ->
  forall th, sat H th s ->
  let k := length inputs in
  let '(cs, nd, n1) := xcompile e k in
  (forall i t, nth_error inputs i = Some t -> is_inst H th (src_schema t) (val vals i)) /\
  xsem H th vals e k /\ nsem H th vals nd /\
  nsem H th vals (fst (fixed nd n1)) /\
  den th (val vals (nval (fst (fixed nd n1)))) = den th (val vals (nval nd)).
Proof. exact xexpr_sound. Qed.
Print Assumptions C04_full.

(* what [xsem] / [nsem] / [is_inst] say, by unfolding *)
Example C04_full_reading : forall H th vals,
  (forall f x n, xsem H th vals (XApp f x) n =
     let '(_, nf, n1) := xcompile f n in
     let '(_, nx, n2) := xcompile x n1 in
     xsem H th vals f n /\ xsem H th vals x n1 /\
     StepSem H th (val vals (nval nf)) (val vals (nval nx)) (val vals n2)) /\
  (forall e T n, xsem H th vals (XAnn e T) n =
     let '(_, ne, n1) := xcompile e n in
     xsem H th vals e n /\ is_inst H th (src_schema T) (val vals n1) /\
     Sub H (den th (val vals (nval ne))) (den th (val vals n1))) /\
  (forall sc d n, xsem H th vals (XOp sc d) n = is_inst H th sc (val vals n)) /\
  (forall t n, xsem H th vals (XSrc t) n = is_inst H th (src_schema t) (val vals n)) /\
  (forall v f x, nsem H th vals (NApp v f x) =
     (nsem H th vals f /\ nsem H th vals x /\
      StepSem H th (val vals (nval f)) (val vals (nval x)) (val vals v))) /\
  (forall sc t, is_inst H th sc t =
     exists sigma, (forall i, wf_ty H (sigma i)) /\ sinst H sigma (s_body sc) (den th t)) /\
  (forall f x r, StepSem H th f x r =
     ((exists a b, den th f = TOp Function [a; b] /\ Sub H (den th x) a /\ den th r = b) \/
      (den th f = TOp Top [] /\ den th r = TOp Top []))).
Proof. intros. repeat split. Qed.

Theorem C04_closed_annotation : forall H th t v, sbound t = 0 -> nowild t = true ->
  is_inst H th (src_schema t) v -> den th v = sty_ty t.
Proof. exact closed_inst. Qed.
Print Assumptions C04_closed_annotation.

Theorem C04_full_satisfiable : forall H, wf_hier H ->
  forall inputs e fuel sc vals s,
  Forall (fun t => styg H (sbound t) t) inputs -> xok H (length inputs) e ->
  run_cmds H fuel (xprog inputs e) 0 [] (empty_store sc) = (None, vals, s) ->
  exists th, sat H th s.
Proof.
  intros H W inputs e fuel sc vals s Fi K R.
  exact (prog_satisfiable H W fuel sc _ vals s (xprog_ok H inputs e Fi K) R).
Qed.
Print Assumptions C04_full_satisfiable.

(* any well-scoped arity-correct type may be the type of a source *)
Theorem C04_source_types : forall H t n, styg H n t -> leaves_ok H (ESrc t).
Proof. intros H t n St. exact (styg_sbound H t n St). Qed.

(* ---------- (e) the property's own ill-typed example ---------- *)
(* A = 5, C = 6, G = 7 binary;  f : x ** x ** x;  f (-: C) (-: G(A, C)) *)
Definition xH := mk_hier [] [(7,[true;true])].
Definition sig_f := mkSchema 1 (SOp Function [SVar 0; SOp Function [SVar 0; SVar 0]]) [].
Definition e_bad := EApp (EApp (EOp sig_f) (ESrc (SOp 6 []))) (ESrc (SOp 7 [SOp 5 []; SOp 6 []])).

Example e_bad_leaves_ok : leaves_ok xH e_bad.
Proof. cbn. repeat split; repeat (constructor; cbn; auto with arith). Qed.

Example e_bad_prog : prog_of e_bad =
  [CInst sig_f; CInst (mkSchema 0 (SOp 6 []) []); CApply 0 1 true;
   CInst (mkSchema 0 (SOp 7 [SOp 5 []; SOp 6 []]) []); CApply 2 3 true].
Proof. reflexivity. Qed.

Example C04_core_rejects_example :
  fst (fst (run_cmds xH 400 (prog_of e_bad) 0 [] (empty_store []))) = Some (ETypeMismatch, 4).
Proof. vm_compute. reflexivity. Qed.

(* ---------- non-vacuity: an accepted higher-order expression ---------- *)
(* A = 5, B = 6 < A, F = 7 unary covariant
   h : F(_) ** x ** x,  app : (x ** y) ** x ** y,  g : A ** F(A)
   h (app g (- : B)) -      *)
Definition exH := mk_hier [(6,5)] [(7,[true])].
Example exH_wf : wf_hier exH.
Proof.
  split.
  - intros o p. cbn. repeat (destruct o as [|o]; try discriminate; cbn); intros [= <-]; auto with arith.
  - intros o p. cbn. repeat (destruct o as [|o]; try discriminate; cbn); intros [= <-]; cbn; repeat split; discriminate.
  - split; reflexivity.
  - split; reflexivity.
  - reflexivity.
Qed.

Definition s_h := mkSchema 1 (SOp Function [SOp 7 [SWild]; SOp Function [SVar 0; SVar 0]]) [].
Definition s_app := mkSchema 2
  (SOp Function [SOp Function [SVar 0; SVar 1]; SOp Function [SVar 0; SVar 1]]) [].
Definition s_g := mkSchema 0 (SOp Function [SOp 5 []; SOp 7 [SOp 5 []]]) [].
Definition e_ok :=
  EApp (EApp (EOp s_h) (EApp (EApp (EOp s_app) (EOp s_g)) (ESrc (SOp 6 [])))) (ESrc SWild).

Example e_ok_leaves_ok : leaves_ok exH e_ok.
Proof. cbn. repeat split; repeat (constructor; cbn; auto with arith). Qed.

Example e_ok_nodes : nodes e_ok 0 = [(1, 2, 3); (3, 4, 5); (0, 5, 6); (6, 7, 8)].
Proof. reflexivity. Qed.

Example e_ok_leaves : map fst (leaves e_ok 0) = [0; 1; 2; 4; 7].
Proof. reflexivity. Qed.

Definition ok_run := Eval vm_compute in run_cmds exH 400 (prog_of e_ok) 0 [] (empty_store []).
Definition ok_vals := snd (fst ok_run).
Definition ok_s := snd ok_run.

Example e_ok_accepted : run_cmds exH 400 (prog_of e_ok) 0 [] (empty_store []) = (None, ok_vals, ok_s).
Proof. vm_compute. reflexivity. Qed.

(* the final store: x of h unresolved without bounds; the wildcard of h with
   lower bound A; x of app unresolved with B <= x <= A; y of app = F(A); the
   untyped source bound to x of h *)
Example e_ok_store : map (fun c => (c_bound c, c_lower c, c_upper c)) (vars ok_s) =
  [(None, None, None); (None, Some 5, None); (None, Some 6, Some 5);
   (Some (O 7 [O 5 []]), None, None); (Some (V 0), None, None)].
Proof. reflexivity. Qed.

(* a satisfying grounding: x of h := F(B) (a compound type), wildcard := Top, x of app := B *)
Definition ok_th (v : nat) : ty :=
  match v with
  | 0 => TOp 7 [TOp 6 []] | 1 => TOp Top [] | 2 => TOp 6 [] | 3 => TOp 7 [TOp 5 []]
  | 4 => TOp 7 [TOp 6 []] | _ => TOp Top []
  end.

Example ok_sat : sat exH ok_th ok_s.
Proof.
  intros v. destruct v as [|[|[|[|[|v]]]]]; cbn.
  - split; [repeat split|]. split; intros x [=].
  - split; [auto|]. split; intros x [= <-]. exists Top. split; [reflexivity|]. right; left; reflexivity.
  - split; [auto|]. split; intros x [= <-]; exists 6; (split; [reflexivity|]); right; right.
    + apply anc_refl.
    + eapply anc_step; [reflexivity|apply anc_refl].
  - split; [repeat split|reflexivity].
  - split; [repeat split|reflexivity].
  - split; [auto|]. destruct v; cbn; split; intros x [=].
Qed.

(* what the theorems say about it: the outer node applies h's partial
   application (x ** x with x := F(B)) to the untyped source *)
Example ok_outer_node :
  den ok_th (val ok_vals 6) = TOp Function [TOp 7 [TOp 6 []]; TOp 7 [TOp 6 []]] /\
  den ok_th (val ok_vals 7) = TOp 7 [TOp 6 []] /\
  den ok_th (val ok_vals 8) = TOp 7 [TOp 6 []].
Proof. repeat split. Qed.

(* and the leaf h denotes its signature with x := F(B), _ := Top *)
Example ok_leaf_h :
  den ok_th (val ok_vals 0) =
  TOp Function [TOp 7 [TOp Top []]; TOp Function [TOp 7 [TOp 6 []]; TOp 7 [TOp 6 []]]].
Proof. reflexivity. Qed.

(* ---------- part 2 examples ---------- *)
(* the property's example through the full compiler: the program of props/C04.v's
   C04_rejects_example followed by the fix traversal; rejected at the second apply *)
Definition x_bad :=
  XApp (XApp (XOp sig_f false) (XSrc (SOp 6 []))) (XSrc (SOp 7 [SOp 5 []; SOp 6 []])).

Example x_bad_prog : xprog [] x_bad =
  [CInst sig_f; CInst (mkSchema 0 (SOp 6 []) []); CUnify 1 1 true; CApply 0 1 true;
   CInst (mkSchema 0 (SOp 7 [SOp 5 []; SOp 6 []]) []); CUnify 3 3 true; CApply 2 3 true;
   CFix 1 false; CFix 2 true; CFix 3 false; CFix 4 true].
Proof. reflexivity. Qed.

Example x_bad_ok : xok xH 0 x_bad.
Proof. cbn. repeat split; repeat (constructor; cbn; auto with arith). Qed.

Example C04_full_rejects_example :
  fst (fst (run_cmds xH 400 (xprog [] x_bad) 0 [] (empty_store []))) = Some (ETypeMismatch, 6).
Proof. vm_compute. reflexivity. Qed.

(* h2 : x ** y ** F(x);  input 1 : B;   ((h2 1) : _ ** F(A)) -   *)
Definition s_h2 := mkSchema 2 (SOp Function [SVar 0; SOp Function [SVar 1; SOp 7 [SVar 0]]]) [].
Definition x_ok :=
  XApp (XAnn (XApp (XOp s_h2 false) (XIn 0)) (SOp Function [SVar 0; SOp 7 [SOp 5 []]])) (XSrc SWild).

Example x_ok_ok : Forall (fun t => styg exH (sbound t) t) [SOp 6 []] /\ xok exH 1 x_ok.
Proof. cbn. repeat split; repeat (constructor; cbn; auto with arith). Qed.

Example x_ok_prog : xprog [SOp 6 []] x_ok =
  [CInst (mkSchema 0 (SOp 6 []) []); CInst s_h2; CApply 1 0 true;
   CInst (mkSchema 1 (SOp Function [SVar 0; SOp 7 [SOp 5 []]]) []); CUnify 2 3 true;
   CInst (mkSchema 0 SWild []); CApply 2 4 true;
   CFix 0 false; CFix 2 true; CFix 4 false; CFix 5 true].
Proof. reflexivity. Qed.

Example x_ok_tree : xcompile x_ok 1 = (firstn 6 (skipn 1 (xprog [SOp 6 []] x_ok)),
                                       NApp 5 (NApp 2 (NLeaf 1) (NSource 0)) (NSource 4), 6) /\
  fixed (NApp 5 (NApp 2 (NLeaf 1) (NSource 0)) (NSource 4)) 6 =
    (NApp 9 (NApp 7 (NLeaf 1) (NSource 6)) (NSource 8), 10).
Proof. split; reflexivity. Qed.

Definition xok_run := Eval vm_compute in run_cmds exH 400 (xprog [SOp 6 []] x_ok) 0 [] (empty_store []).
Definition xok_vals := snd (fst xok_run).
Definition xok_s := snd xok_run.

Example x_ok_accepted :
  run_cmds exH 400 (xprog [SOp 6 []] x_ok) 0 [] (empty_store []) = (None, xok_vals, xok_s).
Proof. vm_compute. reflexivity. Qed.

(* x of h2 was bounded by B (input) and A (annotation) and fixed to B; y stays open *)
Example x_ok_store : map (fun c => (c_bound c, c_lower c, c_upper c)) (vars xok_s) =
  [(Some (O 6 []), Some 6, Some 5); (None, None, None); (Some (V 1), None, None); (Some (V 1), None, None)].
Proof. reflexivity. Qed.

Definition xok_th (v : nat) : ty :=
  match v with 0 => TOp 6 [] | 1 | 2 | 3 => TOp 7 [TOp 5 []] | _ => TOp Top [] end.

Example xok_sat : sat exH xok_th xok_s.
Proof.
  intros v. destruct v as [|[|[|[|v]]]]; cbn.
  - split; [auto|reflexivity].
  - split; [repeat split|]. split; intros x [=].
  - split; [repeat split|reflexivity].
  - split; [repeat split|reflexivity].
  - split; [auto|]. destruct v; cbn; split; intros x [=].
Qed.

(* the annotated node (value 2) is below its annotation (value 3) and the
   re-fixed root (value 9) denotes what the root as built (value 5) denotes *)
Example xok_annotation :
  den xok_th (val xok_vals 2) = TOp Function [TOp 7 [TOp 5 []]; TOp 7 [TOp 6 []]] /\
  den xok_th (val xok_vals 3) = TOp Function [TOp 7 [TOp 5 []]; TOp 7 [TOp 5 []]] /\
  den xok_th (val xok_vals 5) = TOp 7 [TOp 6 []] /\
  den xok_th (val xok_vals 9) = TOp 7 [TOp 6 []].
Proof. repeat split. Qed.
