(* C04 (operators whose constraints have CONCRETE targets / alternatives of any
   shape)  Every declared constraint of an operator leaf whose variable got
   fully resolved HOLDS of that leaf's instantiation - the per-leaf constraint
   clause of C04, UNCONDITIONAL for expressions whose operator signatures carry

        x <= T     x < T       SCSub (SVar i) (sconc T) strict
        x << [T1, ..., Tn]     SCElim (SVar i) [sconc T1; ...; sconc Tn]

   with i a schematic variable of the signature and T, T1..Tn ANY well-formed
   concrete (variable-free, wildcard-free) types: base types, F(A), G(B, C),
   function types, nested ones; n >= 0; any number and mixture per signature
   ([pcc], class [progC] of props/C03_conc.v):
   e.g.  pick : a ** a [a << [F(A), G(B, C)]].
   Lifts props/C04_core.v with props/C03_conc.v; node typing, leaf instances
   (and annotations) for this class come from props/C04_gen.v
   (C04_conc_in_gen).  Proofs: Infer/ExprSoundConc.v.

   Expression trees [expr], [prog_of], [nodes], [leaves]: as in
   props/C04_core.v.  [leaves_okC H e]: every operator leaf has a well-scoped
   arity-correct body and constraints satisfying [pcc]; every source type is
   arity-correct.  [leaves_okE] of C04_elim (base alternatives / base targets)
   is the special case (C04_conc_generalises); [leaves_okG] of C04_gen contains
   it (C04_conc_in_gen).

   C04_conc_compile_wf  the compiled program lies in class [progC] of C03_conc
                        and is well-scoped.
   C04_conc             for every accepted expression and every leaf (k, sch)
     there is n0 - the number of the first fresh variable of the leaf's own
     instantiation, listed for k in [prog_vars] (a function of k:
     C04_conc_vars_fun) - such that, with env = [V n0; ...; V (n0 + s_n sch - 1)]:
       (b2) every declared subtype constraint  x_i <= B  (x_i < B)  whose
            variable env_i is FULLY RESOLVED in the final store, to the value T
            ([grd s env_i T], C03_conc_grd_unfold: following bindings and
            parameters from env_i meets no unbound variable), holds:
            Sub H T B, and T <> B when strict;
       (b3) for every declared elimination constraint  x_i << [B1..Bn]  whose
            variable env_i is fully resolved to T there is a DECLARED
            alternative B (In B [B1..Bn]) with Sub H T B;
       and under EVERY satisfying grounding th the leaf's substitution
       sigma i = den th (env_i) IS T (so (b2)/(b3) speak about the sigma of
       clause (b1) of C04_gen).
   C04_conc_full        C04_gen (application nodes; every leaf denotes the
                        instance of its declared body under sigma) and the
                        constraint clause, for the SAME n0, in one statement.
   C04_conc_leaf_objects  the link behind (b2)/(b3): the m declared constraints
                        of the leaf with value index k are the constraint
                        objects c0 .. c0+m-1 of the final store, in declaration
                        order; object c0+j has the declared kind (a subtype
                        constraint also its declared strictness and target),
                        entry c0+j of [declsC prog] (C03_conc_decls) is what the
                        j-th constraint declares, and its reference lies on the
                        binding chain of the leaf's own variable env_i: it
                        follows to the same term, is fully resolved to the same
                        value, and denotes the same type under every satisfying
                        grounding.  So the whole invariant C03_conc_constraints
                        applies to it (fulfilled => one alternative B left and
                        sigma i <= B under EVERY grounding - resolved or not;
                        pending => attached to every unbound variable reachable
                        from the reference).
   C04_conc_alloc       per operation: an instance of a schema with m constraints
                        of the class allocates exactly m constraint objects, in
                        order, of the declared kinds, each with a reference on
                        the binding chain of its own fresh variable ([kfr],
                        C04_elim_kfr_unfold / C04_elim_frame: the frame that every
                        engine operation satisfies from every store).
   C04_conc_satisfiable an accepted expression has a satisfying grounding.

   Part 2 (the C04_conc_x theorems): the whole program harness/c04.py compiles -
   numbered inputs, annotations `e : T` (CInst T; CUnify ve vT true), typed-source
   self-unification, data operators, the fix traversal of Expr.fix ([xexpr],
   [xprog] of props/C04_core.v) over operators with constraints of this class
   ([xokC]); class [progCQ] = CInst ([pcc] constraints) / CApply / CUnify
   (subtype mode) / CFix.  C03_conc covers CInst / CApply only; its per-operation
   theorems C03_conc_unify_sound / C03_conc_ops (forward soundness) and
   C03_conc_K_ops (constraint invariant) are what the two new commands need, and
   clause (iii) is re-derived from the invariants alone.
   C04_conc_prog_constraints  C03_conc_constraints_hold for [progCQ] (now with
                        CUnify / CFix), with length (constrs s) = ncons prog.
   C04_conc_prog_leaves the constraint clause (b2)/(b3) for every CInst of an
                        accepted [progCQ] program.
   C04_conc_xfull       C04_gen_full (inputs are instances of their declared
                        types, [xsem]: application nodes, operator leaves,
                        sources, annotations Sub (den e) (den T); the tree after
                        Expr.fix well typed with the same root denotation) + for
                        every operator leaf ([xleaves]) of the tree the leaf
                        instance clause (b1) and the constraint clause (b2)/(b3),
                        for the same n0.

   Why (b2)/(b3) are conditional on full resolution: as in C03_conc - a pending
   constraint on a partially resolved variable (x := G(y, z), y, z unbound) is
   only attached to y and z; example e_two.
   Not covered: targets / alternatives that mention variables or wildcards,
   references that are not a bare schematic variable (the gap of C03_conc). *)
From Coq Require Import List Arith Bool.
Import ListNotations.
From TF Require Import Base.Hier Base.Ty Sub.SubSpec Infer.Store Infer.Engine Infer.Run
  Infer.Witness Infer.Check Infer.Inv Infer.Sound Infer.SchedIndep Infer.SoundSub
  Infer.ExprSound Infer.ExprSoundSub Infer.ExprSoundElim Infer.SoundGen Infer.ExprSoundGen
  Infer.Fits Infer.ConcMatch Infer.SoundElimCS Infer.SoundElimCK Infer.SoundElimC
  Infer.ExprSoundConc.
From TF Require Infer.SoundElimS.

(* ---- the classes, by unfolding ---- *)
Example C04_conc_reading : forall H,
  (forall sc, leaves_okC H (EOp sc) =
     (styg H (s_n sc) (s_body sc) /\ Forall (pcc H (s_n sc)) (s_constrs sc))) /\
  (forall t, leaves_okC H (ESrc t) = styg H (sbound t) t) /\
  (forall f x, leaves_okC H (EApp f x) = (leaves_okC H f /\ leaves_okC H x)) /\
  (forall n i t st, pcc H n (SCSub (SVar i) t st) = (i < n /\ exists B, wf_ty H B /\ t = sconc B)) /\
  (forall n i alts, pcc H n (SCElim (SVar i) alts) =
     (i < n /\ exists l, Forall (wf_ty H) l /\ alts = map sconc l)) /\
  (forall o args, sconc (TOp o args) = SOp o (map sconc args)) /\
  (forall th env i, sig_of th env i = den th (nth i env (V 0))) /\
  (forall fuel sc prog, prog_vars H fuel sc prog = inst_trace H fuel prog [] (empty_store sc)).
Proof. intros. repeat split. Qed.

(* [grd s t T]: t is fully resolved in s, T its value (= C03_conc_grd_unfold) *)
Theorem C04_conc_grd_unfold : forall s t T,
  grd s t T <->
  match t with
  | V v => exists t', c_bound (cell_of s v) = Some t' /\ grd s t' T
  | O o args => exists Ts, T = TOp o Ts /\ Forall2 (grd s) args Ts
  end.
Proof.
  intros s t T. split.
  - intros G. inversion G; subst; eauto.
  - destruct t as [v|o args].
    + intros (t' & Hb & G). econstructor; eauto.
    + intros (Ts & -> & F). constructor. exact F.
Qed.

(* the class sits between those of C04_elim and C04_gen *)
Theorem C04_conc_generalises : forall H e, leaves_okE H e -> leaves_okC H e.
Proof. exact leaves_okE_okC. Qed.
Print Assumptions C04_conc_generalises.

Theorem C04_conc_in_gen : forall H e, leaves_okC H e -> leaves_okG H e.
Proof. exact leaves_okC_okG. Qed.
Print Assumptions C04_conc_in_gen.

(* ---- (1) the compiled program is in the class ---- *)
Theorem C04_conc_compile_wf : forall H e, leaves_okC H e ->
  progC H 0 (prog_of e) /\ prog_wf 0 (prog_of e).
Proof. exact compile_wfC. Qed.
Print Assumptions C04_conc_compile_wf.

(* ---- (2) the constraint clause ---- *)
Theorem C04_conc : forall H, wf_hier H ->
  forall e fuel sc vals s, leaves_okC H e ->
  run_cmds H fuel (prog_of e) 0 [] (empty_store sc) = (None, vals, s) ->
  forall k sch, In (k, sch) (leaves e 0) ->
    exists n0, In (k, n0) (prog_vars H fuel sc (prog_of e)) /\
      let env := map V (seq n0 (s_n sch)) in
      (* (b2) every declared subtype constraint whose variable is fully resolved holds *)
      (forall i B st, In (SCSub (SVar i) (sconc B) st) (s_constrs sch) ->
         forall T, grd s (nth i env (V 0)) T ->
           Sub H T B /\ (st = true -> T <> B) /\
           forall th, sat H th s -> den th (nth i env (V 0)) = T) /\
      (* (b3) every declared elimination constraint whose variable is fully resolved
         is met by a declared alternative *)
      (forall i l, In (SCElim (SVar i) (map sconc l)) (s_constrs sch) ->
         forall T, grd s (nth i env (V 0)) T ->
           (exists B, In B l /\ Sub H T B) /\
           forall th, sat H th s -> den th (nth i env (V 0)) = T).
Proof. exact expr_conc. Qed.
Print Assumptions C04_conc.

(* ---- (3) node typing + leaf instance + constraint clause ---- *)
Theorem C04_conc_full : forall H, wf_hier H ->
  forall e fuel sc vals s, leaves_okC H e ->
  run_cmds H fuel (prog_of e) 0 [] (empty_store sc) = (None, vals, s) ->
  (* (a) application nodes *)
  (forall th, sat H th s -> forall f x r, In (f, x, r) (nodes e 0) ->
     (exists a b, den th (val vals f) = TOp Function [a; b] /\
                  Sub H (den th (val vals x)) a /\ den th (val vals r) = b) \/
     (den th (val vals f) = TOp Top [] /\ den th (val vals r) = TOp Top [])) /\
  (* (b) leaves *)
  (forall k sch, In (k, sch) (leaves e 0) ->
     exists n0, In (k, n0) (prog_vars H fuel sc (prog_of e)) /\
       let env := map V (seq n0 (s_n sch)) in
       (* (b1) the leaf is the instance of its signature under its own variables *)
       (forall th, sat H th s ->
          (forall i, wf_ty H (den th (nth i env (V 0)))) /\
          sinst H (fun i => den th (nth i env (V 0))) (s_body sch) (den th (val vals k)) /\
          (nowild (s_body sch) = true ->
             den th (val vals k) = ssubst (fun i => den th (nth i env (V 0))) (s_body sch))) /\
       (* (b2) *)
       (forall i B st, In (SCSub (SVar i) (sconc B) st) (s_constrs sch) ->
          forall T, grd s (nth i env (V 0)) T ->
            Sub H T B /\ (st = true -> T <> B) /\
            forall th, sat H th s -> den th (nth i env (V 0)) = T) /\
       (* (b3) *)
       (forall i l, In (SCElim (SVar i) (map sconc l)) (s_constrs sch) ->
          forall T, grd s (nth i env (V 0)) T ->
            (exists B, In B l /\ Sub H T B) /\
            forall th, sat H th s -> den th (nth i env (V 0)) = T)).
Proof. exact expr_conc_full. Qed.
Print Assumptions C04_conc_full.

(* the value index determines n0 *)
Theorem C04_conc_vars_fun : forall H e fuel sc, leaves_okC H e ->
  forall k n0 n0', In (k, n0) (prog_vars H fuel sc (prog_of e)) ->
    In (k, n0') (prog_vars H fuel sc (prog_of e)) -> n0 = n0'.
Proof. exact prog_vars_funC. Qed.
Print Assumptions C04_conc_vars_fun.

(* ---- the constraint objects of a leaf ---- *)
Theorem C04_conc_leaf_objects : forall H, wf_hier H ->
  forall e fuel sc vals s, leaves_okC H e ->
  run_cmds H fuel (prog_of e) 0 [] (empty_store sc) = (None, vals, s) ->
  forall k sch, In (k, sch) (leaves e 0) ->
  exists n0 c0, In (k, n0) (prog_vars H fuel sc (prog_of e)) /\
    c0 + length (s_constrs sch) <= length (constrs s) /\
    forall j scj, nth_error (s_constrs sch) j = Some scj ->
      let x := nth (match scj with SCSub (SVar i) _ _ => i | SCElim (SVar i) _ => i | _ => 0 end)
                   (map V (seq n0 (s_n sch))) (V 0) in
      let kc := constr_of s (c0 + j) in
      (* its reference lies on the binding chain of the leaf's own variable *)
      ExprSoundElim.reach s x (k_ref kc) /\ follow s (k_ref kc) = follow s x /\
      (forall T, grd s x T -> grd s (k_ref kc) T) /\
      (forall th, sat H th s -> den th (k_ref kc) = den th x) /\
      (* kind, strictness, target as declared *)
      match scj with
      | SCSub _ t st => k_elim kc = false /\ k_strict kc = st /\ k_alts kc = [inj (unconc t)]
      | SCElim _ _ => k_elim kc = true
      end /\
      (* entry c0+j of the declared alternatives of the program *)
      nth (c0 + j) (declsC (prog_of e)) [] = declC scj.
Proof. exact expr_leaf_objectsC. Qed.
Print Assumptions C04_conc_leaf_objects.

(* what the entries are (C03_conc_decls) *)
Theorem C04_conc_decl : forall r i l B st,
  declC (SCElim (SVar i) (map sconc l)) = l /\ declC (SCSub r (sconc B) st) = [B] /\
  unconc (sconc B) = B.
Proof.
  intros. split; [apply map_unconc_sconc|split; [cbn [declC]; rewrite unconc_sconc; reflexivity|apply unconc_sconc]].
Qed.

(* per operation: the constraints an instance allocates *)
Theorem C04_conc_alloc : forall H fuel sc s r s',
  Forall (pcc H (s_n sc)) (s_constrs sc) ->
  instance H fuel sc s = MOk r s' ->
  kfr (length (s_constrs sc)) s s' /\
  forall j scj, nth_error (s_constrs sc) j = Some scj ->
    let kc := constr_of s' (length (constrs s) + j) in
    ExprSoundElim.reach s' (nth (cvar scj) (map V (seq (length (vars s)) (s_n sc))) (V 0)) (k_ref kc) /\
    match scj with
    | SCSub _ t st => k_elim kc = false /\ k_strict kc = st /\ k_alts kc = [inj (unconc t)]
    | SCElim _ _ => k_elim kc = true
    end.
Proof. exact instance_allocC. Qed.
Print Assumptions C04_conc_alloc.

(* the frame along a whole run of the class *)
Theorem C04_conc_run_frame : forall H fuel cs i vals s vals' s', progC H (length vals) cs ->
  run_cmds H fuel cs i vals s = (None, vals', s') -> kfr (ncons cs) s s'.
Proof. exact run_cmds_kfrC. Qed.
Print Assumptions C04_conc_run_frame.

(* a binding chain keeps full resolution and the value *)
Theorem C04_conc_chain_resolved : forall s a b, ExprSoundElim.reach s a b ->
  forall T, grd s a T -> grd s b T.
Proof. exact breach_grd. Qed.

Theorem C04_conc_satisfiable : forall H, wf_hier H ->
  forall e fuel sc vals s, leaves_okC H e ->
  run_cmds H fuel (prog_of e) 0 [] (empty_store sc) = (None, vals, s) ->
  exists th, sat H th s.
Proof.
  intros H W e fuel sc vals s L R.
  destruct (expr_conc_satisfiable H W e fuel sc vals s L R) as (th & S & _). exists th. exact S.
Qed.
Print Assumptions C04_conc_satisfiable.

(* ---------- non-vacuity ---------- *)
(* A = 5, B' = 6 < A, B = 7, C = 8, C' = 9 < C; F = 10 unary, G = 11 binary,
   Hh = 12 unary (all covariant) *)
Definition exH := mk_hier [(6,5);(9,8)] [(10,[true]);(11,[true;true]);(12,[true])].
Example exH_wf : wf_hier exH.
Proof.
  split.
  - intros o p. cbn. repeat (destruct o as [|o]; try discriminate; cbn); intros [= <-]; auto with arith.
  - intros o p. cbn. repeat (destruct o as [|o]; try discriminate; cbn); intros [= <-]; cbn; repeat split; discriminate.
  - split; reflexivity.
  - split; reflexivity.
  - reflexivity.
Qed.

Definition tA := TOp 5 []. Definition tB' := TOp 6 []. Definition tB := TOp 7 [].
Definition tC := TOp 8 []. Definition tC' := TOp 9 []. Definition tTop := TOp Top [].
Definition tF x := TOp 10 [x]. Definition tG x y := TOp 11 [x; y]. Definition tH x := TOp 12 [x].

(* pick : a ** a [a << [F(A), G(B, C)]]       size : F(x) ** A
   low  : x ** x [x < F(A)]  (st = true) / [x <= F(A)]
   two  : x ** y ** x [x << [F(A), G(B, C)], y <= G(Top, C)]
   app  : (x ** y) ** x ** y *)
Definition s_pick := mkSchema 1 (SOp Function [SVar 0; SVar 0])
  [SCElim (SVar 0) (map sconc [tF tA; tG tB tC])].
Definition s_size := mkSchema 1 (SOp Function [SOp 10 [SVar 0]; SOp 5 []]) [].
Definition s_low (st : bool) := mkSchema 1 (SOp Function [SVar 0; SVar 0])
  [SCSub (SVar 0) (sconc (tF tA)) st].
Definition s_two := mkSchema 2 (SOp Function [SVar 0; SOp Function [SVar 1; SVar 0]])
  [SCElim (SVar 0) (map sconc [tF tA; tG tB tC]); SCSub (SVar 1) (sconc (tG tTop tC)) false].
Definition s_app := mkSchema 2 (SOp Function [SOp Function [SVar 0; SVar 1]; SOp Function [SVar 0; SVar 1]]) [].

Example pick_pcc : Forall (pcc exH 1) (s_constrs s_pick).
Proof.
  constructor; [|constructor]. cbn. split; [auto with arith|]. exists [tF tA; tG tB tC].
  split; [|reflexivity]. repeat constructor.
Qed.
Example low_pcc : forall st, Forall (pcc exH 1) (s_constrs (s_low st)).
Proof.
  intros st. constructor; [|constructor]. cbn. split; [auto with arith|]. exists (tF tA).
  split; [cbn; repeat split|reflexivity].
Qed.
Example two_pcc : Forall (pcc exH 2) (s_constrs s_two).
Proof.
  constructor; [|constructor; [|constructor]]; cbn.
  - split; [auto with arith|]. exists [tF tA; tG tB tC]. split; [|reflexivity]. repeat constructor.
  - split; [auto with arith|]. exists (tG tTop tC). split; [cbn; repeat split|reflexivity].
Qed.

Ltac okc := repeat split; try exact pick_pcc; try apply low_pcc; try exact two_pcc;
  repeat (constructor; cbn; auto with arith).

(* (a)  size (pick (- : F(B')))   with B' < A *)
Definition e_ok := EApp (EOp s_size) (EApp (EOp s_pick) (ESrc (sconc (tF tB')))).

Example e_ok_okC : leaves_okC exH e_ok.
Proof. cbn [leaves_okC e_ok]. okc. Qed.

(* ... outside the class of C04_elim: the alternatives are compound *)
Example e_ok_not_okE : ~ leaves_okE exH e_ok.
Proof.
  intros (_ & (_ & Pc) & _). cbn [s_constrs s_pick] in Pc.
  inversion Pc as [|? ? P1 _]; subst. destruct P1 as [P1|P1]; cbn in P1; [exact P1|].
  destruct P1 as (_ & l & _ & E). destruct l as [|b [|b2 l]]; discriminate.
Qed.

Example e_ok_prog : prog_of e_ok =
  [CInst s_size; CInst s_pick; CInst (mkSchema 0 (sconc (tF tB')) []); CApply 1 2 true; CApply 0 3 true].
Proof. reflexivity. Qed.

Example e_ok_nodes_leaves : nodes e_ok 0 = [(1, 2, 3); (0, 3, 4)] /\
  leaves e_ok 0 = [(0, s_size); (1, s_pick); (2, mkSchema 0 (sconc (tF tB')) [])].
Proof. split; reflexivity. Qed.

Definition ok_run := Eval vm_compute in run_cmds exH 400 (prog_of e_ok) 0 [] (empty_store []).
Definition ok_vals := snd (fst ok_run).
Definition ok_s := snd ok_run.

Example e_ok_accepted : run_cmds exH 400 (prog_of e_ok) 0 [] (empty_store []) = (None, ok_vals, ok_s).
Proof. vm_compute. reflexivity. Qed.

(* size's x is V 0, pick's a is V 1; a := F(B'), the filter left [F(A)] *)
Example e_ok_store :
  prog_vars exH 400 [] (prog_of e_ok) = [(0, 0); (1, 1); (2, 2)] /\
  map c_bound (vars ok_s) = [None; Some (O 10 [O 6 []])] /\
  map (fun k => (k_elim k, k_ref k, k_alts k, k_done k)) (constrs ok_s) =
    [(true, O 10 [O 6 []], [O 10 [O 5 []]], true)] /\
  declsC (prog_of e_ok) = [[tF tA; tG tB tC]].
Proof. vm_compute. repeat split. Qed.

Example e_ok_grd : grd ok_s (V 1) (tF tB').
Proof. apply gr_bnd with (t := O 10 [O 6 []]); [reflexivity|]. apply (grd_inj ok_s (tF tB')). Qed.

(* the theorem applied to the pick leaf (value 1): its instantiation has a := F(B')
   under every satisfying grounding, and F(B') fits a DECLARED alternative *)
Example e_ok_pick_constraint :
  (exists B, In B [tF tA; tG tB tC] /\ Sub exH (tF tB') B) /\
  (forall th, sat exH th ok_s -> th 1 = tF tB' /\
     den th (val ok_vals 1) = TOp Function [tF tB'; tF tB']).
Proof.
  destruct (C04_conc_full exH exH_wf e_ok 400 [] ok_vals ok_s e_ok_okC e_ok_accepted) as (_ & Bl).
  destruct (Bl 1 s_pick) as (n0 & Hn0 & B1 & _ & B3); [right; left; reflexivity|].
  rewrite (proj1 e_ok_store) in Hn0.
  assert (n0 = 1) as ->.
  { destruct Hn0 as [E|[E|[E|[]]]]; inversion E; reflexivity. }
  destruct (B3 0 [tF tA; tG tB tC]) with (T := tF tB') as (Hb & Hs); [left; reflexivity|exact e_ok_grd|].
  split; [exact Hb|]. intros th S. pose proof (Hs th S) as E1. cbn in E1. split; [exact E1|].
  destruct (B1 th S) as (_ & _ & E). rewrite E by reflexivity. cbn. rewrite E1. reflexivity.
Qed.

(* (b) rejected:  size (pick (- : Hh(A)))  - no alternative fits, at pick's application *)
Definition e_bad := EApp (EOp s_size) (EApp (EOp s_pick) (ESrc (sconc (tH tA)))).
Example e_bad_rejected :
  leaves_okC exH e_bad /\
  fst (fst (run_cmds exH 400 (prog_of e_bad) 0 [] (empty_store []))) = Some (EConstraintViolation, 3).
Proof. split; [cbn [leaves_okC e_bad]; okc|vm_compute; reflexivity]. Qed.
(* ... and  size (pick (- : G(B, C')))  passes pick's constraint and is rejected by size *)
Definition e_bad2 := EApp (EOp s_size) (EApp (EOp s_pick) (ESrc (sconc (tG tB tC')))).
Example e_bad2_rejected :
  leaves_okC exH e_bad2 /\
  fst (fst (run_cmds exH 400 (prog_of e_bad2) 0 [] (empty_store []))) = Some (ETypeMismatch, 4).
Proof. split; [cbn [leaves_okC e_bad2]; okc|vm_compute; reflexivity]. Qed.

(* (c) a strict subtype constraint with a compound target, the operator passed as an
   argument:  app low (- : F(B'))  with low : x ** x [x < F(A)].  low's x is V 2; creating
   the constraint binds V 2 := F(V 3), the application resolves V 3 := B' *)
Definition e_low := EApp (EApp (EOp s_app) (EOp (s_low true))) (ESrc (sconc (tF tB'))).
Example e_low_okC : leaves_okC exH e_low.
Proof. cbn [leaves_okC e_low]. okc. Qed.
Definition low_run := Eval vm_compute in run_cmds exH 400 (prog_of e_low) 0 [] (empty_store []).
Example e_low_accepted :
  run_cmds exH 400 (prog_of e_low) 0 [] (empty_store []) = (None, snd (fst low_run), snd low_run).
Proof. vm_compute. reflexivity. Qed.
Example e_low_store :
  prog_vars exH 400 [] (prog_of e_low) = [(0, 0); (1, 2); (3, 4)] /\
  map c_bound (vars (snd low_run)) =
    [Some (O 10 [V 3]); Some (O 10 [V 3]); Some (O 10 [V 3]); Some (O 6 [])] /\
  map (fun k => (k_elim k, k_ref k, k_alts k, k_done k, k_strict k)) (constrs (snd low_run)) =
    [(false, V 2, [O 10 [O 5 []]], true, true)].
Proof. vm_compute. repeat split. Qed.
Example e_low_grd : grd (snd low_run) (V 2) (tF tB').
Proof.
  apply gr_bnd with (t := O 10 [V 3]); [reflexivity|]. unfold tF. constructor.
  constructor; [|constructor]. apply gr_bnd with (t := O 6 []); [reflexivity|]. apply (grd_inj (snd low_run) tB').
Qed.
Example e_low_constraint : Sub exH (tF tB') (tF tA) /\ tF tB' <> tF tA.
Proof.
  destruct (C04_conc exH exH_wf e_low 400 [] _ _ e_low_okC e_low_accepted 1 (s_low true))
    as (n0 & Hn0 & B2 & _); [right; left; reflexivity|].
  rewrite (proj1 e_low_store) in Hn0.
  assert (n0 = 2) as ->.
  { destruct Hn0 as [E|[E|[E|[]]]]; inversion E; reflexivity. }
  destruct (B2 0 (tF tA) true) with (T := tF tB') as (Sb & Ne & _); [left; reflexivity|exact e_low_grd|].
  split; [exact Sb|apply Ne; reflexivity].
Qed.
(* the strict constraint rejects F(A) itself *)
Definition e_low_bad := EApp (EApp (EOp s_app) (EOp (s_low true))) (ESrc (sconc (tF tA))).
Example e_low_bad_rejected :
  leaves_okC exH e_low_bad /\
  fst (fst (run_cmds exH 400 (prog_of e_low_bad) 0 [] (empty_store []))) = Some (EConstraintViolation, 4).
Proof. split; [cbn [leaves_okC e_low_bad]; okc|vm_compute; reflexivity]. Qed.

(* (d) nested, two constrained leaves, a mixed signature:
   two (pick (- : G(B, C'))) (- : G(A, C')).  two's x (V 0) and the inner pick's a (V 4)
   are fully resolved to G(B, C'); two's y (V 1) is only partially resolved
   (G(V 2, V 3), both unbound with bounds): its constraint y <= G(Top, C) is PENDING -
   why (b2)/(b3) are conditional *)
Definition e_two := EApp (EApp (EOp s_two) (EApp (EOp s_pick) (ESrc (sconc (tG tB tC')))))
                         (ESrc (sconc (tG tA tC'))).
Example e_two_okC : leaves_okC exH e_two.
Proof. cbn [leaves_okC e_two]. okc. Qed.
Definition two_run := Eval vm_compute in run_cmds exH 400 (prog_of e_two) 0 [] (empty_store []).
Example e_two_accepted :
  run_cmds exH 400 (prog_of e_two) 0 [] (empty_store []) = (None, snd (fst two_run), snd two_run).
Proof. vm_compute. reflexivity. Qed.
Example e_two_store :
  prog_vars exH 400 [] (prog_of e_two) = [(0, 0); (1, 4); (2, 5); (5, 5)] /\
  map c_bound (vars (snd two_run)) =
    [Some (O 11 [O 7 []; O 9 []]); Some (O 11 [V 2; V 3]); None; None; Some (O 11 [O 7 []; O 9 []])] /\
  map (fun k => (k_elim k, k_ref k, k_alts k, k_done k)) (constrs (snd two_run)) =
    [(true, O 11 [O 7 []; O 9 []], [O 11 [O 7 []; O 8 []]], true);
     (false, V 1, [O 11 [O 0 []; O 8 []]], false);
     (true, O 11 [O 7 []; O 9 []], [O 11 [O 7 []; O 8 []]], true)] /\
  declsC (prog_of e_two) = [[tF tA; tG tB tC]; [tG tTop tC]; [tF tA; tG tB tC]].
Proof. vm_compute. repeat split. Qed.
(* the inner pick (value 1, variable V 4) *)
Example e_two_inner : exists B, In B [tF tA; tG tB tC] /\ Sub exH (tG tB tC') B.
Proof.
  destruct (C04_conc exH exH_wf e_two 400 [] _ _ e_two_okC e_two_accepted 1 s_pick)
    as (n0 & Hn0 & _ & B3); [right; left; reflexivity|].
  rewrite (proj1 e_two_store) in Hn0.
  assert (n0 = 4) as ->.
  { destruct Hn0 as [E|[E|[E|[E|[]]]]]; inversion E; reflexivity. }
  destruct (B3 0 [tF tA; tG tB tC]) with (T := tG tB tC') as (Hb & _); [left; reflexivity| |exact Hb].
  apply gr_bnd with (t := O 11 [O 7 []; O 9 []]); [reflexivity|]. apply (grd_inj (snd two_run) (tG tB tC')).
Qed.
(* the outer two (value 0, variables V 0, V 1): its first declared constraint is
   constraint object 0 = c0 + 0, its second one object 1 = c0 + 1 *)
Example e_two_outer : exists B, In B [tF tA; tG tB tC] /\ Sub exH (tG tB tC') B.
Proof.
  destruct (C04_conc exH exH_wf e_two 400 [] _ _ e_two_okC e_two_accepted 0 s_two)
    as (n0 & Hn0 & _ & B3); [left; reflexivity|].
  rewrite (proj1 e_two_store) in Hn0.
  assert (n0 = 0) as ->.
  { destruct Hn0 as [E|[E|[E|[E|[]]]]]; inversion E; reflexivity. }
  destruct (B3 0 [tF tA; tG tB tC]) with (T := tG tB tC') as (Hb & _); [left; reflexivity| |exact Hb].
  apply gr_bnd with (t := O 11 [O 7 []; O 9 []]); [reflexivity|]. apply (grd_inj (snd two_run) (tG tB tC')).
Qed.

(* ---------- part 2: all programs of the class; inputs, annotations, fix traversal ---------- *)
Example C04_conc_x_reading : forall H k,
  (forall sc d, xokC H k (XOp sc d) =
     (styg H (s_n sc) (s_body sc) /\ Forall (pcc H (s_n sc)) (s_constrs sc))) /\
  (forall t, xokC H k (XSrc t) = styg H (sbound t) t) /\
  (forall i, xokC H k (XIn i) = (i < k)) /\
  (forall f x, xokC H k (XApp f x) = (xokC H k f /\ xokC H k x)) /\
  (forall e T, xokC H k (XAnn e T) = (xokC H k e /\ styg H (sbound T) T)) /\
  (forall n0 s sch, leaf_semC H n0 s sch =
     let env := map V (seq n0 (s_n sch)) in
     (forall i B st, In (SCSub (SVar i) (sconc B) st) (s_constrs sch) ->
        forall T, grd s (nth i env (V 0)) T ->
          Sub H T B /\ (st = true -> T <> B) /\
          forall th, sat H th s -> sig_of th env i = T) /\
     (forall i l, In (SCElim (SVar i) (map sconc l)) (s_constrs sch) ->
        forall T, grd s (nth i env (V 0)) T ->
          (exists B, In B l /\ Sub H T B) /\
          forall th, sat H th s -> sig_of th env i = T)).
Proof. intros. repeat split. Qed.

(* the command class, by unfolding *)
Example C04_conc_progCQ_reading : forall H n,
  (forall sc, styg H (s_n sc) (s_body sc) -> Forall (pcc H (s_n sc)) (s_constrs sc) -> cmdCQ H n (CInst sc)) /\
  (forall f x b, f < n -> x < n -> cmdCQ H n (CApply f x b)) /\
  (forall a b, a < n -> b < n -> cmdCQ H n (CUnify a b true)) /\
  (forall a pl, a < n -> cmdCQ H n (CFix a pl)) /\
  (forall c r, progCQ H n (c :: r) = (cmdCQ H n c /\ progCQ H (nxt c n) r)) /\
  (forall cs, progC H n cs -> progCQ H n cs) /\
  (forall cs, progCQ H n cs -> progG H n cs).
Proof.
  intros H n. repeat apply conj; try (intros; constructor; auto; fail).
  - intros cs. apply progC_CQ.
  - intros cs. apply progCQ_progG.
Qed.

(* C03_conc_constraints_hold for the larger class *)
Theorem C04_conc_prog_constraints : forall H, wf_hier H ->
  forall fuel sc prog vals s, progCQ H 0 prog ->
  run_cmds H fuel prog 0 [] (empty_store sc) = (None, vals, s) ->
  length (constrs s) = ncons prog /\
  forall c, c < length (constrs s) ->
  forall T, grd s (k_ref (constr_of s c)) T ->
  if k_elim (constr_of s c)
  then exists B, In B (nth c (declsC prog) []) /\ In (inj B) (k_alts (constr_of s c)) /\ Sub H T B
  else exists B, In B (nth c (declsC prog) []) /\ k_alts (constr_of s c) = [inj B] /\ Sub H T B /\
                 (k_strict (constr_of s c) = true -> T <> B).
Proof.
  intros H W fuel sc prog vals s P R. split.
  - destruct (run_cmds_finCQ H W fuel sc prog vals s P R) as (_ & _ & N). exact N.
  - exact (concQ_constraints_hold H W fuel sc prog vals s P R).
Qed.
Print Assumptions C04_conc_prog_constraints.

(* the invariants of C03_conc_final hold of every store reached by such a program *)
Theorem C04_conc_prog_final : forall H, wf_hier H ->
  forall fuel sc prog vals s, progCQ H 0 prog ->
  run_cmds H fuel prog 0 [] (empty_store sc) = (None, vals, s) ->
  invb true s /\ JC H s /\ dn H s /\ Forall (tg H (length (vars s))) vals /\
  (exists R, length R = length (declsC prog) /\ Kc H (declsC prog, R) (@none) s) /\
  exists th, sat H th s.
Proof.
  intros H W fuel sc prog vals s P R.
  destruct (run_cmds_finCQ H W fuel sc prog vals s P R) as ((I & J0 & Dn & Kk & S) & Fv & _). auto 10.
Qed.
Print Assumptions C04_conc_prog_final.

Theorem C04_conc_prog_leaves : forall H, wf_hier H ->
  forall fuel sc prog vals s, progCQ H 0 prog ->
  run_cmds H fuel prog 0 [] (empty_store sc) = (None, vals, s) ->
  forall k sch, In (k, sch) (insts_of prog 0) ->
    exists n0, In (k, n0) (prog_vars H fuel sc prog) /\ leaf_semC H n0 s sch.
Proof. exact prog_leaves_concQ. Qed.
Print Assumptions C04_conc_prog_leaves.

Theorem C04_conc_x_compile_wf : forall H inputs e,
  Forall (fun t => styg H (sbound t) t) inputs -> xokC H (length inputs) e ->
  progCQ H 0 (xprog inputs e) /\ prog_wf 0 (xprog inputs e).
Proof.
  intros H inputs e Fi K. pose proof (xprog_okC H inputs e Fi K) as P.
  split; [exact P|apply (progG_wf H); apply progCQ_progG; exact P].
Qed.
Print Assumptions C04_conc_x_compile_wf.

Theorem C04_conc_x_generalises : forall H k e,
  (xokE H k e -> xokC H k e) /\ (xokC H k e -> xokG H k e).
Proof. intros H k e. split; [apply xokE_okC|apply xokC_okG]. Qed.
Print Assumptions C04_conc_x_generalises.

Theorem C04_conc_xfull : forall H, wf_hier H ->
  forall inputs e fuel sc vals s,
  Forall (fun t => styg H (sbound t) t) inputs -> xokC H (length inputs) e ->
  run_cmds H fuel (xprog inputs e) 0 [] (empty_store sc) = (None, vals, s) ->
  (* as C04_full / C04_gen_full *)
  (forall th, sat H th s ->
     let k := length inputs in
     let '(cs, nd, n1) := xcompile e k in
     (forall i t, nth_error inputs i = Some t -> is_inst H th (src_schema t) (val vals i)) /\
     xsem H th vals e k /\ nsem H th vals nd /\
     nsem H th vals (fst (fixed nd n1)) /\
     den th (val vals (nval (fst (fixed nd n1)))) = den th (val vals (nval nd))) /\
  (* every operator leaf of the tree, with its declared constraints *)
  (forall k sch, In (k, sch) (xleaves e (length inputs)) ->
     exists n0, In (k, n0) (prog_vars H fuel sc (xprog inputs e)) /\
       let env := map V (seq n0 (s_n sch)) in
       (forall th, sat H th s ->
          (forall i, wf_ty H (den th (nth i env (V 0)))) /\
          sinst H (fun i => den th (nth i env (V 0))) (s_body sch) (den th (val vals k)) /\
          (nowild (s_body sch) = true ->
             den th (val vals k) = ssubst (fun i => den th (nth i env (V 0))) (s_body sch))) /\
       (forall i B st, In (SCSub (SVar i) (sconc B) st) (s_constrs sch) ->
          forall T, grd s (nth i env (V 0)) T ->
            Sub H T B /\ (st = true -> T <> B) /\
            forall th, sat H th s -> den th (nth i env (V 0)) = T) /\
       (forall i l, In (SCElim (SVar i) (map sconc l)) (s_constrs sch) ->
          forall T, grd s (nth i env (V 0)) T ->
            (exists B, In B l /\ Sub H T B) /\
            forall th, sat H th s -> den th (nth i env (V 0)) = T)).
Proof. exact xexpr_conc_full. Qed.
Print Assumptions C04_conc_xfull.

(* ---------- part 2 example ---------- *)
(* input 1 : F(B');   (size ((pick 1) : F(A))) : A    through the full compiler *)
Definition x_ok := XAnn (XApp (XOp s_size false)
                              (XAnn (XApp (XOp s_pick false) (XIn 0)) (sconc (tF tA)))) (sconc tA).

Example x_ok_okC : Forall (fun t => styg exH (sbound t) t) [sconc (tF tB')] /\ xokC exH 1 x_ok.
Proof.
  split; [repeat (constructor; cbn; auto with arith)|].
  cbn [xokC x_ok]. okc.
Qed.

Example x_ok_prog : xprog [sconc (tF tB')] x_ok =
  [CInst (mkSchema 0 (sconc (tF tB')) []); CInst s_size; CInst s_pick; CApply 2 0 true;
   CInst (mkSchema 0 (sconc (tF tA)) []); CUnify 3 4 true; CApply 1 3 true;
   CInst (mkSchema 0 (sconc tA) []); CUnify 5 6 true;
   CFix 0 false; CFix 3 true; CFix 5 true].
Proof. reflexivity. Qed.

Example x_ok_leaves : xleaves x_ok 1 = [(1, s_size); (2, s_pick)].
Proof. reflexivity. Qed.

Definition xok_run := Eval vm_compute in run_cmds exH 400 (xprog [sconc (tF tB')] x_ok) 0 [] (empty_store []).
Definition xok_vals := snd (fst xok_run).
Definition xok_s := snd xok_run.

Example x_ok_accepted :
  run_cmds exH 400 (xprog [sconc (tF tB')] x_ok) 0 [] (empty_store []) = (None, xok_vals, xok_s).
Proof. vm_compute. reflexivity. Qed.

Example x_ok_store :
  prog_vars exH 400 [] (xprog [sconc (tF tB')] x_ok) = [(0, 0); (1, 0); (2, 1); (4, 2); (6, 2)] /\
  map c_bound (vars xok_s) = [None; Some (O 10 [O 6 []])] /\
  map (fun k => (k_elim k, k_ref k, k_alts k, k_done k)) (constrs xok_s) =
    [(true, O 10 [O 6 []], [O 10 [O 5 []]], true)].
Proof. vm_compute. repeat split. Qed.

Example x_ok_pick_constraint :
  (exists B, In B [tF tA; tG tB tC] /\ Sub exH (tF tB') B) /\
  forall th, sat exH th xok_s -> th 1 = tF tB'.
Proof.
  destruct (C04_conc_xfull exH exH_wf [sconc (tF tB')] x_ok 400 [] xok_vals xok_s (proj1 x_ok_okC)
              (proj2 x_ok_okC) x_ok_accepted) as (_ & Bl).
  destruct (Bl 2 s_pick) as (n0 & Hn0 & _ & _ & B3); [right; left; reflexivity|].
  rewrite (proj1 x_ok_store) in Hn0.
  assert (n0 = 1) as ->.
  { destruct Hn0 as [E|[E|[E|[E|[E|[]]]]]]; inversion E; reflexivity. }
  destruct (B3 0 [tF tA; tG tB tC]) with (T := tF tB') as (Hb & Hs); [left; reflexivity| |].
  - apply gr_bnd with (t := O 10 [O 6 []]); [reflexivity|]. apply (grd_inj xok_s (tF tB')).
  - split; [exact Hb|]. intros th S. exact (Hs th S).
Qed.

(* the inner annotation matters: (pick 1) : G(B, C) is rejected at the annotation's unify;
   an input Hh(B') is rejected by pick's constraint *)
Definition x_bad := XAnn (XApp (XOp s_size false)
                               (XAnn (XApp (XOp s_pick false) (XIn 0)) (sconc (tG tB tC)))) (sconc tA).
Example x_bad_rejected :
  xokC exH 1 x_bad /\
  fst (fst (run_cmds exH 400 (xprog [sconc (tF tB')] x_bad) 0 [] (empty_store []))) = Some (ETypeMismatch, 5) /\
  fst (fst (run_cmds exH 400 (xprog [sconc (tH tB')] x_ok) 0 [] (empty_store []))) = Some (EConstraintViolation, 3).
Proof.
  split; [cbn [xokC x_bad]; okc|split; vm_compute; reflexivity].
Qed.
