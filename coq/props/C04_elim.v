(* C04 (operators with elimination constraints)  Every expression that parses
   is well-typed at every application node, every leaf is an instance of its
   declared signature, and every declared constraint of an operator whose
   variable got resolved HOLDS of that leaf's instantiation - the
   UNCONDITIONAL statement for expressions whose operator signatures carry

        x << [A1, ..., An]   SCElim (SVar i) [SOp a1 []; ...; SOp an []]
                             i a schematic variable of the signature, every aj
                             a user base operator (no parameters, neither Top
                             nor Bottom), n >= 0
        x <= A     x < A     SCSub (SVar i) (SOp a []) strict    (as C04_sub)

   in any number and any mixture ([pscE], class [progE] of props/C03_elim.v).
   Lifts props/C04_core.v with props/C03_elim.v.  Proofs: Infer/ExprSoundElim.v.

   Expression trees [expr], [compile], [prog_of], [nodes], [leaves]: as in
   props/C04_core.v.  [leaves_okE H e]: every operator leaf has a well-scoped
   arity-correct body and constraints satisfying [pscE]; every source type is
   arity-correct ([leaves_okS] of C04_sub is the special case without
   elimination constraints: C04_elim_generalises).

   C04_elim_compile_wf  the compiled program lies in class [progE] of C03_elim
                        and is well-scoped.
   C04_elim             for every accepted expression:
     (a) under EVERY grounding th satisfying the final store every application
         node has den f = Function [a; b], Sub (den x) a, den node = b (or
         den f = Top = den node)                  - C03_elim_sound (i)+(ii);
     (b) for every leaf (k, sch) there is n0 - the number of the first fresh
         variable of the leaf's own instantiation, listed for k in [prog_vars]
         (a function of k: C04_elim_vars_fun) - such that, with
         env = [V n0; ...; V (n0 + s_n sch - 1)] and sigma i = den th (env_i):
         (b1) under EVERY satisfying grounding the leaf's value denotes an
              instance of its declared body under sigma ([sinst]; = [ssubst]
              sigma body when the body has no wildcard);
         (b2) every declared subtype constraint  x_i <= a  (x_i < a)  whose
              variable env_i is RESOLVED in the final store (follows to a
              concrete operation O o args) holds: Sub (TOp o []) (TOp a []),
              o <> a when strict, args = [] unless a = Top; and, read with a
              grounding, Sub (sigma i) (TOp a []), sigma i <> TOp a [] when strict;
         (b3) for every declared elimination constraint  x_i << alts  whose
              variable env_i is RESOLVED to O o args there is a DECLARED
              alternative a (In (SOp a []) alts) with Sub (TOp o []) (TOp a []);
              then args = [] and Sub (sigma i) (TOp a []) under every satisfying
              grounding.
   C04_elim_leaf_objects  the link behind (b2)/(b3): the m declared constraints
                        of the leaf instantiated by the CInst with value index k
                        are the constraint objects c0 .. c0+m-1 of the final
                        store, in declaration order; object c0+j has the declared
                        kind (a subtype constraint also its declared target and
                        strictness), entry c0+j of [decls prog] (C03_elim_decls)
                        is what the j-th constraint declares, and its reference
                        follows to whatever the leaf's own variable env_i follows
                        to.  So the whole invariant C03_elim_constraints applies
                        to it (fulfilled => one alternative left and the variable
                        is below it under every grounding; pending and unresolved
                        => attached to the set of the unbound variable).
   C04_elim_alloc       per operation: an instance of a schema with m constraints
                        of the class allocates exactly m constraint objects, in
                        order, of the declared kinds, each with a reference on
                        the binding chain of its own fresh variable.
   C04_elim_frame       what NO engine operation does ([kfr 0]): allocate a
                        constraint object, undo a binding, change the kind or
                        strictness of a constraint object or the target of a
                        subtype constraint, or move the reference of a
                        constraint object off the binding chain of its old
                        reference ([reach]).  (The reference and the
                        alternatives of an elimination constraint ARE rewritten,
                        by minimize and the filter of fulfill: this is why the
                        frame of C04_sub does not apply.)  No invariant needed:
                        it holds from every store.
   C04_elim_satisfiable an accepted expression has a satisfying grounding.

   Part 2 (the C04_elim_full theorems): the whole program harness/c04.py compiles -
   numbered inputs, annotations `e : T` (CInst T; CUnify ve vT true), typed-source
   self-unification, data operators, the fix traversal of Expr.fix ([xexpr],
   [xprog] of props/C04_core.v) over operators with constraints of both kinds
   ([xokE]); class [progEQ] = CInst ([pscE] constraints) / CApply / CUnify
   (subtype mode) / CFix.  C03_elim covers CInst / CApply only; its per-operation
   theorems C03_elim_unify_sound / fix_soundE (forward soundness) and
   C03_elim_K_ops (constraint invariant) are what the two new commands need, and
   the constraint clauses are re-derived from the invariants alone ([finE]).
   C04_elim_prog_sound  for every accepted [progEQ] program: application steps,
                        every unify (a, b) has Sub (den a) (den b), every fix
                        result denotes what its argument denotes, and the leaf
                        clause (b) for every CInst.
   C04_elim_constraints C03_elim_constraints + C03_elim_sound (iii), (iv) for
                        [progEQ] (now with CUnify / CFix).
   C04_elim_full        C04_full for [xokE]: inputs are instances of their
                        declared types, [xsem] (application nodes, operator
                        leaves, sources, annotations: Sub (den e) (den T)),
                        the tree after Expr.fix well typed with the same root
                        denotation + the leaf clause (b) for every operator
                        leaf ([xleaves]) of the tree.

   Why (b2)/(b3) are conditional on resolution: as in C04_sub ([sat] reads the
   variable cells only); example ex_pending.  Example e_rw shows a constraint
   object whose reference was rewritten (V 2 -> V 1) and is still tied to its
   leaf's variable by C04_elim.
   Not covered: elimination constraints whose alternatives are compound types
   or contain variables, references that are not a bare schematic variable,
   subtype constraints with a non-base target (the gap of C03_elim). *)
From Coq Require Import List Arith Bool.
Import ListNotations.
From TF Require Import Base.Hier Base.Ty Sub.SubSpec Infer.Store Infer.Engine Infer.Run
  Infer.Witness Infer.Check Infer.Inv Infer.Sound Infer.SchedIndep Infer.SoundSub
  Infer.SoundElimS Infer.SoundElimK Infer.SoundElim Infer.ExprSound Infer.ExprSoundSub
  Infer.ExprSoundElim.
From TF Require Infer.FitsEngineList.

(* ---- the classes, by unfolding ---- *)
Example C04_elim_reading : forall H,
  (forall sc, leaves_okE H (EOp sc) =
     (styg H (s_n sc) (s_body sc) /\ Forall (pscE H (s_n sc)) (s_constrs sc))) /\
  (forall t, leaves_okE H (ESrc t) = styg H (sbound t) t) /\
  (forall f x, leaves_okE H (EApp f x) = (leaves_okE H f /\ leaves_okE H x)) /\
  (forall n sc, pscE H n sc = (psc H n sc \/ pec H n sc)) /\
  (forall n i a st, psc H n (SCSub (SVar i) (SOp a []) st) = (i < n /\ variance H a = [])) /\
  (forall n i alts, pec H n (SCElim (SVar i) alts) =
     (i < n /\ exists l, Forall (fun b => variance H b = [] /\ b <> Top /\ b <> Bottom) l /\
                         alts = map (fun b => SOp b []) l)) /\
  (forall th env i, sig_of th env i = den th (nth i env (V 0))) /\
  (forall fuel sc prog, prog_vars H fuel sc prog = inst_trace H fuel prog [] (empty_store sc)).
Proof. intros. repeat split. Qed.

Theorem C04_elim_generalises : forall H e, leaves_okS H e -> leaves_okE H e.
Proof. exact leaves_okS_okE. Qed.
Print Assumptions C04_elim_generalises.

(* ---- (1) the compiled program is in the class ---- *)
Theorem C04_elim_compile_wf : forall H e, leaves_okE H e ->
  progE H 0 (prog_of e) /\ prog_wf 0 (prog_of e).
Proof. exact compile_wfE. Qed.
Print Assumptions C04_elim_compile_wf.

(* ---- (2) the main theorem ---- *)
Theorem C04_elim : forall H, wf_hier H ->
  forall e fuel sc vals s, leaves_okE H e ->
  run_cmds H fuel (prog_of e) 0 [] (empty_store sc) = (None, vals, s) ->
  (* (a) application nodes *)
  (forall th, sat H th s -> forall f x r, In (f, x, r) (nodes e 0) ->
     (exists a b, den th (val vals f) = TOp Function [a; b] /\
                  Sub H (den th (val vals x)) a /\ den th (val vals r) = b) \/
     (den th (val vals f) = TOp Top [] /\ den th (val vals r) = TOp Top [])) /\
  (* (b) leaves *)
  (forall k sch, In (k, sch) (leaves e 0) ->
     exists n0, In (k, n0) (prog_vars H fuel sc (prog_of e)) /\
       let env := map V (seq n0 (s_n sch)) in
       (* (b1) the leaf is the instance of its signature under its own variables *)
       (forall th, sat H th s ->
          (forall i, wf_ty H (den th (nth i env (V 0)))) /\
          sinst H (fun i => den th (nth i env (V 0))) (s_body sch) (den th (val vals k)) /\
          (nowild (s_body sch) = true ->
             den th (val vals k) = ssubst (fun i => den th (nth i env (V 0))) (s_body sch))) /\
       (* (b2) every declared subtype constraint whose variable is resolved holds *)
       (forall i a st, In (SCSub (SVar i) (SOp a []) st) (s_constrs sch) ->
          forall o args, follow s (nth i env (V 0)) = O o args ->
            (Sub H (TOp o []) (TOp a []) /\ (st = true -> o <> a) /\ (args = [] \/ a = Top)) /\
            forall th, sat H th s ->
              Sub H (den th (nth i env (V 0))) (TOp a []) /\
              (st = true -> den th (nth i env (V 0)) <> TOp a [])) /\
       (* (b3) every declared elimination constraint whose variable is resolved
          is met by a declared alternative *)
       (forall i alts, In (SCElim (SVar i) alts) (s_constrs sch) ->
          forall o args, follow s (nth i env (V 0)) = O o args ->
            exists a, In (SOp a []) alts /\ Sub H (TOp o []) (TOp a []) /\ args = [] /\
              forall th, sat H th s -> Sub H (den th (nth i env (V 0))) (TOp a []))).
Proof. exact expr_elim. Qed.
Print Assumptions C04_elim.

(* the same, quantified over the sub-expression occurrences *)
Theorem C04_elim_occ : forall H, wf_hier H ->
  forall e fuel sc vals s, leaves_okE H e ->
  run_cmds H fuel (prog_of e) 0 [] (empty_store sc) = (None, vals, s) ->
  (forall th, sat H th s -> forall f x m, occ e 0 (EApp f x) m ->
     let tf := den th (val vals (vidx f m)) in
     let tx := den th (val vals (vidx x (m + size f))) in
     let tr := den th (val vals (vidx (EApp f x) m)) in
     (exists a b, tf = TOp Function [a; b] /\ Sub H tx a /\ tr = b) \/
     (tf = TOp Top [] /\ tr = TOp Top [])) /\
  (forall g m sch, occ e 0 g m -> leaf_schema g = Some sch ->
     exists n0, In (m, n0) (prog_vars H fuel sc (prog_of e)) /\ leaf_semE H n0 s vals m sch).
Proof.
  intros H W e fuel sc vals s L R. destruct (expr_elim H W e fuel sc vals s L R) as (A & B). split.
  - intros th S f x m Oc. cbv zeta. apply (A th S). apply nodes_occ. exists f, x, m. auto.
  - intros g m sch Oc E. apply B. apply leaves_occ. exists g. auto.
Qed.
Print Assumptions C04_elim_occ.

(* the value index determines n0 *)
Theorem C04_elim_vars_fun : forall H e fuel sc, leaves_okE H e ->
  forall k n0 n0', In (k, n0) (prog_vars H fuel sc (prog_of e)) ->
    In (k, n0') (prog_vars H fuel sc (prog_of e)) -> n0 = n0'.
Proof.
  intros H e fuel sc L. rewrite prog_of_code.
  apply (inst_trace_funE H fuel (code e 0) [] (empty_store sc)). apply progE_EQ. apply code_progE. exact L.
Qed.
Print Assumptions C04_elim_vars_fun.

(* the constraint objects of a leaf *)
Theorem C04_elim_leaf_objects : forall H, wf_hier H ->
  forall e fuel sc vals s, leaves_okE H e ->
  run_cmds H fuel (prog_of e) 0 [] (empty_store sc) = (None, vals, s) ->
  forall k sch, In (k, sch) (leaves e 0) ->
  exists n0 c0, In (k, n0) (prog_vars H fuel sc (prog_of e)) /\
    c0 + length (s_constrs sch) <= length (constrs s) /\
    forall j scj, nth_error (s_constrs sch) j = Some scj ->
      let kc := constr_of s (c0 + j) in
      (* its reference resolves to what the leaf's own variable resolves to *)
      follow s (k_ref kc) =
        follow s (nth (match scj with SCSub (SVar i) _ _ => i | SCElim (SVar i) _ => i | _ => 0 end)
                      (map V (seq n0 (s_n sch))) (V 0)) /\
      (* kind, target, strictness as declared *)
      match scj with
      | SCSub _ (SOp a _) st => k_elim kc = false /\ k_alts kc = [O a []] /\ k_strict kc = st
      | SCSub _ _ _ => True
      | SCElim _ _ => k_elim kc = true
      end /\
      (* entry c0+j of the declared alternatives of the program *)
      nth (c0 + j) (decls (prog_of e)) [] = decl scj.
Proof.
  intros H W e fuel sc vals s L R k sch Hin. rewrite prog_of_code in *. rewrite <- insts_code0 in Hin.
  exact (prog_leaf_objects H W fuel sc _ vals s (progE_EQ H _ _ (code_progE H e L 0)) R k sch Hin).
Qed.
Print Assumptions C04_elim_leaf_objects.

(* per operation: the constraints an instance allocates *)
Theorem C04_elim_alloc : forall H fuel sc s r s',
  Forall (pscE H (s_n sc)) (s_constrs sc) ->
  instance H fuel sc s = MOk r s' ->
  kfr (length (s_constrs sc)) s s' /\
  forall j scj, nth_error (s_constrs sc) j = Some scj ->
    let kc := constr_of s' (length (constrs s) + j) in
    reach s' (nth (cvar scj) (map V (seq (length (vars s)) (s_n sc))) (V 0)) (k_ref kc) /\
    match scj with
    | SCSub _ (SOp a _) st => k_elim kc = false /\ k_alts kc = [O a []] /\ k_strict kc = st
    | SCSub _ _ _ => True
    | SCElim _ _ => k_elim kc = true
    end.
Proof. exact instance_allocE. Qed.
Print Assumptions C04_elim_alloc.

(* the frame, unfolded *)
Theorem C04_elim_kfr_unfold : forall n s s',
  kfr n s s' <->
  (forall v t, c_bound (cell_of s v) = Some t -> c_bound (cell_of s' v) = Some t) /\
  length (constrs s') = n + length (constrs s) /\
  forall c, c < length (constrs s) ->
    reach s' (k_ref (constr_of s c)) (k_ref (constr_of s' c)) /\
    k_elim (constr_of s' c) = k_elim (constr_of s c) /\
    k_strict (constr_of s' c) = k_strict (constr_of s c) /\
    (k_elim (constr_of s c) = false -> k_alts (constr_of s' c) = k_alts (constr_of s c)).
Proof. intros. reflexivity. Qed.

(* [reach s a b]: b is on the binding chain that starts at a; then b resolves
   to whatever a resolves to *)
Theorem C04_elim_reach : forall s a b,
  (reach s a b <-> a = b \/ exists v t, a = V v /\ c_bound (cell_of s v) = Some t /\ reach s t b) /\
  (invb true s -> reach s a b -> follow s b = follow s a).
Proof.
  intros s a b. split; [split|].
  - intros R. destruct R as [a|v t b Hv Hr]; [left; reflexivity|right; eauto].
  - intros [->|(v & t & -> & Hv & Hr)]; [apply reach_refl|eapply reach_step; eauto].
  - intros I R. apply reach_follow_eq; [apply I|exact R].
Qed.
Print Assumptions C04_elim_reach.

Theorem C04_elim_frame : forall H f,
  (forall sub skb skw a b s u s', unify H f sub skb skw a b s = MOk u s' -> kfr 0 s s') /\
  (forall v t s u s', bind H f v t s = MOk u s' -> kfr 0 s s') /\
  (forall v s u s', check_constraints H f v s = MOk u s' -> kfr 0 s s') /\
  (forall c s d s', fulfill H f c s = MOk d s' -> kfr 0 s s') /\
  (forall c s u s', k_elim (constr_of s c) = true -> minimize H f c s = MOk u s' -> kfr 0 s s') /\
  (forall pl t s r s', fix_ty H f pl t s = MOk r s' -> kfr 0 s s') /\
  (forall g x fixb s r s', apply H f g x fixb s = MOk r s' -> kfr 0 s s').
Proof.
  intros H f. destruct (kq_all H f) as (A & B & _ & _ & E & C & D & M).
  repeat apply conj.
  - intros sub skb skw a b s u s' X. exact (A sub skb skw a b s u s' X).
  - intros v t s u s' X. exact (B v t s u s' X).
  - intros v s u s' X. exact (C v s u s' X).
  - intros c s d s' X. exact (D c s d s' X).
  - exact M.
  - intros pl t s r s' X. exact (E pl t s r s' X).
  - intros g x fixb s r s' X. exact (kq_apply H f g x fixb s r s' X).
Qed.
Print Assumptions C04_elim_frame.

Theorem C04_elim_satisfiable : forall H, wf_hier H ->
  forall e fuel sc vals s, leaves_okE H e ->
  run_cmds H fuel (prog_of e) 0 [] (empty_store sc) = (None, vals, s) ->
  exists th, sat H th s.
Proof.
  intros H W e fuel sc vals s L R.
  destruct (expr_elim_satisfiable H W e fuel sc vals s L R) as (th & S & _). exists th. exact S.
Qed.
Print Assumptions C04_elim_satisfiable.


(* ---------- part 2: inputs, annotations, fix traversal ---------- *)
Example C04_elim_full_reading : forall H k,
  (forall sc d, xokE H k (XOp sc d) =
     (styg H (s_n sc) (s_body sc) /\ Forall (pscE H (s_n sc)) (s_constrs sc))) /\
  (forall t, xokE H k (XSrc t) = styg H (sbound t) t) /\
  (forall i, xokE H k (XIn i) = (i < k)) /\
  (forall f x, xokE H k (XApp f x) = (xokE H k f /\ xokE H k x)) /\
  (forall e T, xokE H k (XAnn e T) = (xokE H k e /\ styg H (sbound T) T)) /\
  (forall n0 s vals k sch, leaf_semE H n0 s vals k sch =
     let env := map V (seq n0 (s_n sch)) in
     (forall th, sat H th s ->
        (forall i, wf_ty H (sig_of th env i)) /\
        sinst H (sig_of th env) (s_body sch) (den th (val vals k)) /\
        (nowild (s_body sch) = true -> den th (val vals k) = ssubst (sig_of th env) (s_body sch))) /\
     (forall i a st, In (SCSub (SVar i) (SOp a []) st) (s_constrs sch) ->
        forall o args, follow s (nth i env (V 0)) = O o args ->
          (Sub H (TOp o []) (TOp a []) /\ (st = true -> o <> a) /\ (args = [] \/ a = Top)) /\
          forall th, sat H th s ->
            Sub H (sig_of th env i) (TOp a []) /\ (st = true -> sig_of th env i <> TOp a [])) /\
     (forall i alts, In (SCElim (SVar i) alts) (s_constrs sch) ->
        forall o args, follow s (nth i env (V 0)) = O o args ->
          exists a, In (SOp a []) alts /\ Sub H (TOp o []) (TOp a []) /\ args = [] /\
            forall th, sat H th s -> Sub H (sig_of th env i) (TOp a []))).
Proof. intros. repeat split. Qed.

(* the command class, by unfolding *)
Example C04_elim_progEQ_reading : forall H n,
  (forall sc, styg H (s_n sc) (s_body sc) -> Forall (pscE H (s_n sc)) (s_constrs sc) -> cmdEQ H n (CInst sc)) /\
  (forall f x b, f < n -> x < n -> cmdEQ H n (CApply f x b)) /\
  (forall a b, a < n -> b < n -> cmdEQ H n (CUnify a b true)) /\
  (forall a pl, a < n -> cmdEQ H n (CFix a pl)) /\
  (forall c r, progEQ H n (c :: r) = (cmdEQ H n c /\ progEQ H (nxt c n) r)) /\
  (forall cs, progE H n cs -> progEQ H n cs) /\
  (forall cs, progSQ H n cs -> progEQ H n cs).
Proof.
  intros H n. repeat apply conj; try (intros; constructor; auto; fail).
  - intros cs. apply progE_EQ.
  - intros cs. revert n. induction cs as [|c cs IH]; intros n P; cbn [progEQ]; [exact I|].
    destruct P as [Pc Pr]. split; [|apply IH; exact Pr].
    destruct Pc as [sc Sb Pc|f x b Lf Lx|a b La Lb|a pl La]; constructor; auto.
    eapply Forall_impl; [|exact Pc]. intros k Pk. left. exact Pk.
Qed.

Theorem C04_elim_prog_sound : forall H, wf_hier H ->
  forall fuel sc prog vals s, progEQ H 0 prog ->
  run_cmds H fuel prog 0 [] (empty_store sc) = (None, vals, s) ->
  (forall th, sat H th s ->
     (forall f x r, In (f, x, r) (steps_of prog 0) ->
        (exists a b, den th (val vals f) = TOp Function [a; b] /\
                     Sub H (den th (val vals x)) a /\ den th (val vals r) = b) \/
        (den th (val vals f) = TOp Top [] /\ den th (val vals r) = TOp Top [])) /\
     (forall a b, In (a, b) (unifs_of prog) -> Sub H (den th (val vals a)) (den th (val vals b))) /\
     (forall a r, In (a, r) (fixes_of prog 0) -> den th (val vals r) = den th (val vals a))) /\
  (forall k sch, In (k, sch) (insts_of prog 0) ->
     exists n0, In (k, n0) (prog_vars H fuel sc prog) /\ leaf_semE H n0 s vals k sch).
Proof.
  intros H W fuel sc prog vals s P R. split.
  - intros th S. exact (prog_sem_elim H W fuel sc prog vals s P R th S).
  - exact (prog_leaves_elim H W fuel sc prog vals s P R).
Qed.
Print Assumptions C04_elim_prog_sound.

(* C03_elim_constraints and C03_elim_sound (iii), (iv) for the larger class *)
Theorem C04_elim_constraints : forall H, wf_hier H ->
  forall fuel sc prog vals s, progEQ H 0 prog ->
  run_cmds H fuel prog 0 [] (empty_store sc) = (None, vals, s) ->
  length (constrs s) = ncons prog /\
  (forall c, c < length (constrs s) ->
   let k := constr_of s c in
   tg H (length (vars s)) (k_ref k) /\
   if k_elim k then
     (exists l, Forall (fun b => variance H b = [] /\ b <> Top /\ b <> Bottom) l /\
                k_alts k = map (fun b => O b []) l /\ incl l (nth c (decls prog) [])) /\
     (k_done k = true ->
        exists a, k_alts k = [O a []] /\
          forall th, sat H th s -> Sub H (den th (k_ref k)) (TOp a [])) /\
     (k_done k = false ->
        (forall o args, follow s (k_ref k) = O o args ->
           k_alts k <> [] /\ forall m, In (O m []) (k_alts k) -> Sub H (TOp o []) (TOp m [])) /\
        (forall u, follow s (k_ref k) = V u -> In c (cset_of s (c_cs (cell_of s u)))))
   else
     exists a, k_alts k = [O a []] /\ variance H a = [] /\
       (forall o args, follow s (k_ref k) = O o args ->
          Sub H (TOp o []) (TOp a []) /\ (k_strict k = true -> o <> a)) /\
       (forall u, follow s (k_ref k) = V u ->
          if k_done k then a = Top /\ k_strict k = false
          else In c (cset_of s (c_cs (cell_of s u))))) /\
  (* (iii) elimination constraints *)
  (forall c, c < length (constrs s) -> k_elim (constr_of s c) = true ->
     forall o args, follow s (k_ref (constr_of s c)) = O o args ->
     exists a, In a (nth c (decls prog) []) /\ In (O a []) (k_alts (constr_of s c)) /\
               Sub H (TOp o []) (TOp a [])) /\
  (* (iii) subtype constraints *)
  (forall c, c < length (constrs s) -> k_elim (constr_of s c) = false ->
     exists a, k_alts (constr_of s c) = [O a []] /\
       forall o args, follow s (k_ref (constr_of s c)) = O o args ->
         Sub H (TOp o []) (TOp a []) /\ (k_strict (constr_of s c) = true -> o <> a) /\
         (args = [] \/ a = Top)) /\
  (* (iv) *)
  (forall v t o args, c_bound (cell_of s v) = Some t ->
     (c_lower (cell_of s v) <> None \/ c_upper (cell_of s v) <> None) ->
     follow s t = O o args -> args = []).
Proof.
  intros H W fuel sc prog vals s P R.
  destruct (progEQ_final H W fuel sc prog vals s P R) as (F & _ & N & _).
  split; [exact N|split; [exact (fin_constraints H _ s F)|split; [exact (fin_constraints_hold H W _ s F)|split]]].
  - exact (fin_sub_constraints_hold H W _ s F).
  - destruct (run_cmds_goodEQ H W fuel prog 0 [] (empty_store sc) vals s (JE_empty H sc) (Forall_nil _) P R)
      as (_ & L & _).
    exact (fin_bounded H W sc _ s F L).
Qed.
Print Assumptions C04_elim_constraints.

Theorem C04_elim_full_compile_wf : forall H inputs e,
  Forall (fun t => styg H (sbound t) t) inputs -> xokE H (length inputs) e ->
  progEQ H 0 (xprog inputs e) /\ prog_wf 0 (xprog inputs e).
Proof.
  intros H inputs e Fi K. pose proof (xprog_okE H inputs e Fi K) as P.
  split; [exact P|apply (progEQ_wf H); exact P].
Qed.
Print Assumptions C04_elim_full_compile_wf.

Theorem C04_elim_full_generalises : forall H k e, xokS H k e -> xokE H k e.
Proof. exact xokS_okE. Qed.
Print Assumptions C04_elim_full_generalises.

Theorem C04_elim_full : forall H, wf_hier H ->
  forall inputs e fuel sc vals s,
  Forall (fun t => styg H (sbound t) t) inputs -> xokE H (length inputs) e ->
  run_cmds H fuel (xprog inputs e) 0 [] (empty_store sc) = (None, vals, s) ->
  (* as C04_full *)
  (forall th, sat H th s ->
     let k := length inputs in
     let '(cs, nd, n1) := xcompile e k in
     (forall i t, nth_error inputs i = Some t -> is_inst H th (src_schema t) (val vals i)) /\
     xsem H th vals e k /\ nsem H th vals nd /\
     nsem H th vals (fst (fixed nd n1)) /\
     den th (val vals (nval (fst (fixed nd n1)))) = den th (val vals (nval nd))) /\
  (* every CInst of the program (inputs, sources, annotations, operators) *)
  (forall k sch, In (k, sch) (insts_of (xprog inputs e) 0) ->
     exists n0, In (k, n0) (prog_vars H fuel sc (xprog inputs e)) /\ leaf_semE H n0 s vals k sch) /\
  (* in particular every operator leaf of the tree, with its declared constraints *)
  (forall k sch, In (k, sch) (xleaves e (length inputs)) ->
     exists n0, In (k, n0) (prog_vars H fuel sc (xprog inputs e)) /\ leaf_semE H n0 s vals k sch).
Proof. exact xexpr_elim. Qed.
Print Assumptions C04_elim_full.

Theorem C04_elim_full_satisfiable : forall H, wf_hier H ->
  forall inputs e fuel sc vals s,
  Forall (fun t => styg H (sbound t) t) inputs -> xokE H (length inputs) e ->
  run_cmds H fuel (xprog inputs e) 0 [] (empty_store sc) = (None, vals, s) ->
  exists th, sat H th s.
Proof.
  intros H W inputs e fuel sc vals s Fi K R.
  destruct (xexpr_elim_satisfiable H W inputs e fuel sc vals s Fi K R) as (th & S & _). exists th. exact S.
Qed.
Print Assumptions C04_elim_full_satisfiable.

(* ---------- non-vacuity ---------- *)
(* A = 5, B = 6 < A, C = 7 (unrelated), F = 8 unary covariant *)
Definition exH := mk_hier [(6,5)] [(8,[true])].
Example exH_wf : wf_hier exH.
Proof.
  split.
  - intros o p. cbn. repeat (destruct o as [|o]; try discriminate; cbn); intros [= <-]; auto with arith.
  - intros o p. cbn. repeat (destruct o as [|o]; try discriminate; cbn); intros [= <-]; cbn; repeat split; discriminate.
  - split; reflexivity.
  - split; reflexivity.
  - reflexivity.
Qed.

(* pick : x ** x ** x [x << [A, C]]
   sel  : x ** y ** x [x << [A, C], y <= A] *)
Definition s_pick := mkSchema 1 (SOp Function [SVar 0; SOp Function [SVar 0; SVar 0]])
  [SCElim (SVar 0) [SOp 5 []; SOp 7 []]].
Definition s_sel := mkSchema 2 (SOp Function [SVar 0; SOp Function [SVar 1; SVar 0]])
  [SCElim (SVar 0) [SOp 5 []; SOp 7 []]; SCSub (SVar 1) (SOp 5 []) false].

Example pick_pscE : Forall (pscE exH 1) (s_constrs s_pick).
Proof.
  constructor; [|constructor]. right. cbn. split; [auto with arith|]. exists [5; 7]. split; [|reflexivity].
  repeat constructor; discriminate.
Qed.

Example sel_pscE : Forall (pscE exH 2) (s_constrs s_sel).
Proof.
  constructor; [|constructor; [|constructor]].
  - right. cbn. split; [auto with arith|]. exists [5; 7]. split; [|reflexivity]. repeat constructor; discriminate.
  - left. cbn. split; [auto with arith|reflexivity].
Qed.

(* pick (- : B) (pick (- : B) (- : A)) *)
Definition e_ok := EApp (EApp (EOp s_pick) (ESrc (SOp 6 [])))
                        (EApp (EApp (EOp s_pick) (ESrc (SOp 6 []))) (ESrc (SOp 5 []))).

Example e_ok_leaves_okE : leaves_okE exH e_ok.
Proof.
  cbn [leaves_okE e_ok]. repeat split; try exact pick_pscE; repeat (constructor; cbn; auto with arith).
Qed.

Example e_ok_prog : prog_of e_ok =
  [CInst s_pick; CInst (mkSchema 0 (SOp 6 []) []); CApply 0 1 true;
   CInst s_pick; CInst (mkSchema 0 (SOp 6 []) []); CApply 3 4 true;
   CInst (mkSchema 0 (SOp 5 []) []); CApply 5 6 true; CApply 2 7 true].
Proof. reflexivity. Qed.

Example e_ok_leaves : leaves e_ok 0 =
  [(0, s_pick); (1, mkSchema 0 (SOp 6 []) []); (3, s_pick); (4, mkSchema 0 (SOp 6 []) []);
   (6, mkSchema 0 (SOp 5 []) [])].
Proof. reflexivity. Qed.

Definition ok_run := Eval vm_compute in run_cmds exH 400 (prog_of e_ok) 0 [] (empty_store []).
Definition ok_vals := snd (fst ok_run).
Definition ok_s := snd ok_run.

Example e_ok_accepted : run_cmds exH 400 (prog_of e_ok) 0 [] (empty_store []) = (None, ok_vals, ok_s).
Proof. vm_compute. reflexivity. Qed.

(* the outer pick's variable is V 0, the inner pick's is V 1 *)
Example e_ok_vars : prog_vars exH 400 [] (prog_of e_ok) = [(0, 0); (1, 1); (3, 1); (4, 2); (6, 2)].
Proof. vm_compute. reflexivity. Qed.

(* the final store: both variables resolved to A, both constraints fulfilled with
   the one alternative A that the filter left (B <= A, not B <= C) *)
Example e_ok_store :
  map (fun c => (c_bound c, c_lower c, c_upper c)) (vars ok_s) =
    [(Some (O 5 []), Some 5, Some 5); (Some (O 5 []), Some 5, Some 5)] /\
  map (fun k => (k_elim k, k_ref k, k_alts k, k_done k)) (constrs ok_s) =
    [(true, V 0, [O 5 []], true); (true, V 1, [O 5 []], true)] /\
  decls (prog_of e_ok) = [[5; 7]; [5; 7]].
Proof. vm_compute. repeat split. Qed.

(* the theorem applied to the inner pick (value 3): its instantiation has
   x := th 1, the resolved A fits a DECLARED alternative, and th 1 is below it
   under every satisfying grounding *)
Example e_ok_pick_constraint :
  (forall th, sat exH th ok_s ->
     den th (val ok_vals 3) = TOp Function [th 1; TOp Function [th 1; th 1]]) /\
  exists a, In a [5; 7] /\ Sub exH (TOp 5 []) (TOp a []) /\
    forall th, sat exH th ok_s -> Sub exH (th 1) (TOp a []).
Proof.
  destruct (C04_elim exH exH_wf e_ok 400 [] ok_vals ok_s e_ok_leaves_okE e_ok_accepted) as (_ & B).
  destruct (B 3 s_pick) as (n0 & Hn0 & B1 & _ & B3); [right; right; left; reflexivity|].
  rewrite e_ok_vars in Hn0.
  assert (n0 = 1) as ->.
  { destruct Hn0 as [E|[E|[E|[E|[E|[]]]]]]; inversion E; reflexivity. }
  split.
  - intros th S. destruct (B1 th S) as (_ & _ & E). apply E. reflexivity.
  - destruct (B3 0 [SOp 5 []; SOp 7 []]) with (o := 5) (args := @nil tyv) as (a & Ia & Sa & _ & Sem);
      [left; reflexivity|reflexivity|].
    exists a. split; [|split; [exact Sa|exact Sem]].
    destruct Ia as [E|[E|[]]]; inversion E; cbn; auto.
Qed.

(* rejected: pick (- : B) (pick (- : B) (- : C)) - after the first argument the
   filter leaves A only, C is not below A *)
Definition e_bad := EApp (EApp (EOp s_pick) (ESrc (SOp 6 [])))
                         (EApp (EApp (EOp s_pick) (ESrc (SOp 6 []))) (ESrc (SOp 7 []))).
Example e_bad_leaves_okE : leaves_okE exH e_bad.
Proof.
  cbn [leaves_okE e_bad]. repeat split; try exact pick_pscE; repeat (constructor; cbn; auto with arith).
Qed.
Example e_bad_rejected :
  fst (fst (run_cmds exH 400 (prog_of e_bad) 0 [] (empty_store []))) = Some (ESubtypeMismatch, 7).
Proof. vm_compute. reflexivity. Qed.

(* rejected by the filter itself: pick (- : F(B)) - no alternative fits *)
Definition e_bad2 := EApp (EOp s_pick) (ESrc (SOp 8 [SOp 6 []])).
Example e_bad2_rejected :
  leaves_okE exH e_bad2 /\
  fst (fst (run_cmds exH 400 (prog_of e_bad2) 0 [] (empty_store []))) = Some (EConstraintViolation, 2).
Proof.
  split; [|vm_compute; reflexivity].
  cbn [leaves_okE e_bad2]. repeat split; try exact pick_pscE; repeat (constructor; cbn; auto with arith).
Qed.
(* ... and accepted without the constraint *)
Example e_bad2_erased_accepted :
  fst (fst (run_cmds exH 400 (map erase_cmd (prog_of e_bad2)) 0 [] (empty_store []))) = None.
Proof. vm_compute. reflexivity. Qed.

(* why (b3) is conditional: pick - leaves x unresolved, both alternatives kept,
   the constraint pending and attached to the set of x *)
Definition e_pending := EApp (EOp s_pick) (ESrc SWild).
Example ex_pending :
  let r := run_cmds exH 400 (prog_of e_pending) 0 [] (empty_store []) in
  fst (fst r) = None /\
  map (fun c => (c_bound c, c_lower c, c_upper c)) (vars (snd r)) = [(None, None, None); (Some (V 0), None, None)] /\
  map (fun k => (k_ref k, k_alts k, k_done k)) (constrs (snd r)) = [(V 0, [O 5 []; O 7 []], false)] /\
  csets (snd r) = [[0]; []].
Proof. vm_compute. repeat split. Qed.

(* a mixed signature, nested: sel (pick (- : C) -) (- : B) *)
Definition e_mix := EApp (EApp (EOp s_sel) (EApp (EApp (EOp s_pick) (ESrc (SOp 7 []))) (ESrc SWild)))
                         (ESrc (SOp 6 [])).
Example e_mix_leaves_okE : leaves_okE exH e_mix.
Proof.
  cbn [leaves_okE e_mix]. repeat split; try exact pick_pscE; try exact sel_pscE;
    repeat (constructor; cbn; auto with arith).
Qed.
Definition mix_run := Eval vm_compute in run_cmds exH 400 (prog_of e_mix) 0 [] (empty_store []).
Example e_mix_accepted :
  run_cmds exH 400 (prog_of e_mix) 0 [] (empty_store []) = (None, snd (fst mix_run), snd mix_run).
Proof. vm_compute. reflexivity. Qed.
Example e_mix_vars : prog_vars exH 400 [] (prog_of e_mix) = [(0, 0); (1, 2); (2, 3); (4, 3); (7, 4)].
Proof. vm_compute. reflexivity. Qed.
(* sel's x (V 0) is resolved to C: it fits the declared alternative C *)
Example e_mix_sel : exists a, In a [5; 7] /\ Sub exH (TOp 7 []) (TOp a []).
Proof.
  destruct (C04_elim exH exH_wf e_mix 400 [] _ _ e_mix_leaves_okE e_mix_accepted) as (_ & B).
  destruct (B 0 s_sel) as (n0 & Hn0 & _ & _ & B3); [left; reflexivity|].
  rewrite e_mix_vars in Hn0.
  assert (n0 = 0) as ->.
  { destruct Hn0 as [E|[E|[E|[E|[E|[]]]]]]; inversion E; reflexivity. }
  destruct (B3 0 [SOp 5 []; SOp 7 []]) with (o := 7) (args := @nil tyv) as (a & Ia & Sa & _);
    [left; reflexivity|reflexivity|].
  exists a. split; [|exact Sa]. destruct Ia as [E|[E|[]]]; inversion E; cbn; auto.
Qed.

(* the reference of a constraint object IS rewritten: app : (x ** y) ** x ** y,
   id' : x ** x [x << [A, C]];  app id' (- : B).  The leaf id' has the variable
   V 2; unifying id' with app's parameter binds V 0 := V 2, V 2 := V 1, and the
   re-check rewrote the reference of id's constraint from V 2 to V 1 *)
Definition s_app := mkSchema 2 (SOp Function [SOp Function [SVar 0; SVar 1]; SOp Function [SVar 0; SVar 1]]) [].
Definition s_id := mkSchema 1 (SOp Function [SVar 0; SVar 0]) [SCElim (SVar 0) [SOp 5 []; SOp 7 []]].
Definition e_rw := EApp (EApp (EOp s_app) (EOp s_id)) (ESrc (SOp 6 [])).
Example e_rw_leaves_okE : leaves_okE exH e_rw.
Proof.
  cbn [leaves_okE e_rw]. repeat split; try exact pick_pscE; repeat (constructor; cbn; auto with arith).
Qed.
Definition rw_run := Eval vm_compute in run_cmds exH 400 (prog_of e_rw) 0 [] (empty_store []).
Example e_rw_accepted :
  run_cmds exH 400 (prog_of e_rw) 0 [] (empty_store []) = (None, snd (fst rw_run), snd rw_run).
Proof. vm_compute. reflexivity. Qed.
Example e_rw_store :
  prog_vars exH 400 [] (prog_of e_rw) = [(0, 0); (1, 2); (3, 3)] /\
  map c_bound (vars (snd rw_run)) = [Some (V 2); Some (O 6 []); Some (V 1)] /\
  map (fun k => (k_elim k, k_ref k, k_alts k, k_done k)) (constrs (snd rw_run)) = [(true, V 1, [O 5 []], true)].
Proof. vm_compute. repeat split. Qed.
(* the theorem still ties the object to the leaf's own variable V 2: B fits A *)
Example e_rw_id : exists a, In a [5; 7] /\ Sub exH (TOp 6 []) (TOp a []) /\
  forall th, sat exH th (snd rw_run) -> Sub exH (th 2) (TOp a []).
Proof.
  destruct (C04_elim exH exH_wf e_rw 400 [] _ _ e_rw_leaves_okE e_rw_accepted) as (_ & B).
  destruct (B 1 s_id) as (n0 & Hn0 & _ & _ & B3); [right; left; reflexivity|].
  rewrite (proj1 e_rw_store) in Hn0.
  assert (n0 = 2) as ->.
  { destruct Hn0 as [E|[E|[E|[]]]]; inversion E; reflexivity. }
  destruct (B3 0 [SOp 5 []; SOp 7 []]) with (o := 6) (args := @nil tyv) as (a & Ia & Sa & _ & Sem);
    [left; reflexivity|reflexivity|].
  exists a. split; [|split; [exact Sa|exact Sem]]. destruct Ia as [E|[E|[]]]; inversion E; cbn; auto.
Qed.

(* ---------- part 2 example ---------- *)
(* input 1 : B;   (pick 1 (- : B)) : A    through the full compiler *)
Definition x_ok := XAnn (XApp (XApp (XOp s_pick false) (XIn 0)) (XSrc (SOp 6 []))) (SOp 5 []).

Example x_ok_okE : Forall (fun t => styg exH (sbound t) t) [SOp 6 []] /\ xokE exH 1 x_ok.
Proof.
  split; [repeat (constructor; cbn; auto with arith)|].
  cbn [xokE x_ok]. repeat split; try exact pick_pscE; repeat (constructor; cbn; auto with arith).
Qed.

Example x_ok_prog : xprog [SOp 6 []] x_ok =
  [CInst (mkSchema 0 (SOp 6 []) []); CInst s_pick; CApply 1 0 true;
   CInst (mkSchema 0 (SOp 6 []) []); CUnify 3 3 true; CApply 2 3 true;
   CInst (mkSchema 0 (SOp 5 []) []); CUnify 4 5 true;
   CFix 0 false; CFix 2 true; CFix 3 false; CFix 4 true].
Proof. reflexivity. Qed.

Example x_ok_leaves : xleaves x_ok 1 = [(1, s_pick)].
Proof. reflexivity. Qed.

Definition xok_run := Eval vm_compute in run_cmds exH 400 (xprog [SOp 6 []] x_ok) 0 [] (empty_store []).
Definition xok_vals := snd (fst xok_run).
Definition xok_s := snd xok_run.

Example x_ok_accepted :
  run_cmds exH 400 (xprog [SOp 6 []] x_ok) 0 [] (empty_store []) = (None, xok_vals, xok_s).
Proof. vm_compute. reflexivity. Qed.

Example x_ok_store :
  prog_vars exH 400 [] (xprog [SOp 6 []] x_ok) = [(0, 0); (1, 0); (3, 1); (5, 1)] /\
  map (fun c => (c_bound c, c_lower c, c_upper c)) (vars xok_s) = [(Some (O 6 []), Some 6, Some 5)] /\
  map (fun k => (k_elim k, k_ref k, k_alts k, k_done k)) (constrs xok_s) = [(true, V 0, [O 5 []], true)].
Proof. vm_compute. repeat split. Qed.

Example x_ok_pick_constraint : exists a, In a [5; 7] /\
  forall th, sat exH th xok_s -> Sub exH (th 0) (TOp a []).
Proof.
  destruct (C04_elim_full exH exH_wf [SOp 6 []] x_ok 400 [] xok_vals xok_s (proj1 x_ok_okE) (proj2 x_ok_okE)
              x_ok_accepted) as (_ & _ & B).
  destruct (B 1 s_pick) as (n0 & Hn0 & _ & _ & B3); [left; reflexivity|].
  rewrite (proj1 x_ok_store) in Hn0.
  assert (n0 = 0) as ->.
  { destruct Hn0 as [E|[E|[E|[E|[]]]]]; inversion E; reflexivity. }
  destruct (B3 0 [SOp 5 []; SOp 7 []]) with (o := 6) (args := @nil tyv) as (a & Ia & _ & _ & Sem);
    [left; reflexivity|reflexivity|].
  exists a. split; [|exact Sem]. destruct Ia as [E|[E|[]]]; inversion E; cbn; auto.
Qed.

(* the annotation matters: (pick 1 (- : B)) : C is rejected at the annotation's unify *)
Definition x_bad := XAnn (XApp (XApp (XOp s_pick false) (XIn 0)) (XSrc (SOp 6 []))) (SOp 7 []).
Example x_bad_rejected :
  xokE exH 1 x_bad /\
  fst (fst (run_cmds exH 400 (xprog [SOp 6 []] x_bad) 0 [] (empty_store []))) = Some (ESubtypeMismatch, 7).
Proof.
  split; [|vm_compute; reflexivity].
  cbn [xokE x_bad]. repeat split; try exact pick_pscE; repeat (constructor; cbn; auto with arith).
Qed.
