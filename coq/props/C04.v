(* C04  Every expression that parses is well-typed at every application node.

   An expression tree is, for the engine, the command program of its
   construction sequence (leaf instantiation, apply per application node in
   the parser's left-to-right post-order, unify per annotation, the fix
   traversal of Expr.fix).  The per-node conditions are StepHolds of
   Infer/Witness.v for the (function, argument, node) triple of every apply.
   Full statement: for every program of that shape accepted by the engine,
   every grounding within the reported bounds satisfies StepHolds at every
   step.  Proved here: the per-instance form (checker soundness, as C03) and
   the rejection of the property's own ill-typed example on the model.  The
   unconditional form is the same open obligation as C03_core_sound. *)
From Coq Require Import List Arith Bool.
Import ListNotations.
From TF Require Import Base.Hier Base.Ty Sub.Match Sub.SubSpec Infer.Store Infer.Engine
  Infer.Run Infer.Witness Infer.Check.

Theorem C04_node_checker_sound_partial : forall H, wf_hier H ->
  forall fuel s ths dflt steps, all_steps_ok H fuel s ths dflt steps = true ->
  forall th, In th ths -> forall st, In st steps -> StepHolds H fuel s th dflt st.
Proof. exact all_steps_ok_sound. Qed.
Print Assumptions C04_node_checker_sound_partial.

(* every apply command of a program contributes its (function, argument, node) triple *)
Theorem C04_steps_cover_applications : forall cs n f x b,
  In (CApply f x b) cs -> exists k, In (f, x, k) (steps_of cs n).
Proof.
  induction cs as [|c cs IH]; intros n f x b Hin; [destruct Hin|].
  destruct Hin as [->|Hin].
  - exists n. cbn. now left.
  - destruct c; cbn [steps_of]; destruct (IH _ _ _ _ Hin) as [k Hk] || idtac.
    all: try (destruct (IH (S n) f x b Hin) as [k Hk]; exists k; cbn; auto; fail).
    all: try (destruct (IH n f x b Hin) as [k Hk]; exists k; cbn; auto; fail).
Qed.
Print Assumptions C04_steps_cover_applications.

(* f : x ** x ** x ;  f (-: C) (-: G(A, C)) is rejected.   A=5, C=6, G=7 binary *)
Definition xH := mk_hier [] [(7,[true;true])].
Example C04_rejects_example :
  hd [] (run_dump xH 400 []
    [CInst (mkSchema 1 (SOp Function [SVar 0; SOp Function [SVar 0; SVar 0]]) []);
     CInst (mkSchema 0 (SOp 6 []) []); CUnify 1 1 true; CApply 0 1 true;
     CInst (mkSchema 0 (SOp 7 [SOp 5 []; SOp 6 []]) []); CUnify 3 3 true; CApply 2 3 true])
  = [1; 1; 0; 6].
Proof. vm_compute. reflexivity. Qed.
