(* C03 (general constraints)  Every accepted polymorphic application has a
   witnessing instantiation - the MAIN CLAUSE of C03 for the engine model
   (Infer/Engine.v) on programs whose schemas carry ARBITRARY constraints:

        r <= t   r < t        SCSub r t strict
        r << [t1, ..., tn]    SCElim r [t1; ...; tn]

   with r, t, t1..tn ANY well-scoped, arity-correct schematic types ([styg]:
   schematic variables of the schema, wildcards `_`, base, compound and
   function types), in any number and mixture.  Class [progG H 0 prog]
   (Infer/SoundGen.v; unfolded in C03_gen_class): CInst of such schemas,
   CApply, CUnify in subtype mode, CFix.  The classes of C03_core ([progP]),
   C03_sub ([progS]) and C03_elim ([progE]) are sub-classes
   (C03_gen_subclasses).

   Why this holds whatever the constraints say: fulfilling a constraint only
   calls match (a pure reader), fix, unify (subtype mode, for a subtype
   constraint with skip_basic) and updates of the constraint record; every one
   of these only REFINES the store ([le]: a grounding that satisfies the new
   store satisfies the old one).  Constraints narrow, they never widen.  The
   induction on fuel of C03_core / C03_elim is redone over unify (both values
   of skip_basic) / bind / above / below / fix_ty / check_constraints /
   fulfill / minimize under the forward invariant [JG] (cells as in C03_sub's
   [Jv]; every constraint object: reference and all alternatives well-scoped
   and arity-correct) with the postcondition [goodG] = JG, [le], [fr] and the
   operation's meaning under every grounding of the new store (C03_gen_ops).

   C03_gen_sound, for every wf_hier H, fuel, schedule, accepted progG program:
     for EVERY grounding th with [sat H th s] every apply step (f, x, r) has
     den f = Function [a; b], Sub (den x) a, den r = b (or den f = Top = den r)
     - clause (i)+(ii) of C03_elim_sound, verbatim.
   C03_gen_extend / C03_gen_satisfiable: every assignment of the unresolved
     variables within their reported bounds extends to a satisfying grounding
     (resolved variables denote what they were resolved to: [sat]).
   C03_gen_bounded: a variable that carries a base-type bound is never
     resolved to a compound type (clause (iv) of C03_elim_sound, verbatim).
   C03_gen_cmds: the CUnify / CFix commands mean Sub / equality of denotations.

   NOT claimed here (and not needed for the main clause): that the constraints
   themselves hold of the final store (clause (iii) of C03_elim_sound; proved
   for base alternatives in C03_elim, for base targets in C03_sub).
   CUnify with subtype=False is outside the class on purpose: bind only
   rejects a base type STRICTLY on the wrong side of a bound, so equating a
   bounded variable with an incomparable base type is accepted by the code and
   does not refine the store. *)
From Coq Require Import List Arith Bool.
Import ListNotations.
From TF Require Import Base.Hier Base.Ty Sub.SubSpec Infer.Store Infer.Engine Infer.Run
  Infer.Witness Infer.Check Infer.Inv Infer.Sound Infer.SchedIndep Infer.SoundSub
  Infer.SoundElimS Infer.SoundElimK Infer.SoundElim Infer.ExprSound Infer.SoundGen.
From TF Require Infer.Lub Infer.FitsEngineList.

(* ---- the main theorem ---- *)
Theorem C03_gen_sound : forall H, wf_hier H ->
  forall fuel sc prog vals s, progG H 0 prog ->
  run_cmds H fuel prog 0 [] (empty_store sc) = (None, vals, s) ->
  forall th, sat H th s -> forall f x r, In (f, x, r) (steps_of prog 0) ->
    (exists a b, den th (val vals f) = TOp Function [a; b] /\
                 Sub H (den th (val vals x)) a /\ den th (val vals r) = b) \/
    (den th (val vals f) = TOp Top [] /\ den th (val vals r) = TOp Top []).
Proof. exact gen_sound. Qed.
Print Assumptions C03_gen_sound.

(* a variable that carries a base-type bound is never resolved to a compound type *)
Theorem C03_gen_bounded : forall H, wf_hier H ->
  forall fuel sc prog vals s, progG H 0 prog ->
  run_cmds H fuel prog 0 [] (empty_store sc) = (None, vals, s) ->
  forall v t o args, c_bound (cell_of s v) = Some t ->
    (c_lower (cell_of s v) <> None \/ c_upper (cell_of s v) <> None) ->
    follow s t = O o args -> args = [].
Proof. exact gen_bounded. Qed.
Print Assumptions C03_gen_bounded.

(* "unresolved ones by any type within their reported bounds": every such
   assignment g extends to a grounding that satisfies the final store *)
Theorem C03_gen_extend : forall H, wf_hier H ->
  forall fuel sc prog vals s, progG H 0 prog ->
  run_cmds H fuel prog 0 [] (empty_store sc) = (None, vals, s) ->
  forall g,
    (forall v, c_bound (cell_of s v) = None ->
       wf_ty H (g v) /\
       (forall l, c_lower (cell_of s v) = Some l -> exists b, g v = TOp b [] /\ Lub.ole H l b) /\
       (forall u, c_upper (cell_of s v) = Some u -> exists b, g v = TOp b [] /\ Lub.ole H b u)) ->
  exists th, sat H th s /\ forall v, c_bound (cell_of s v) = None -> th v = g v.
Proof. exact gen_extend. Qed.
Print Assumptions C03_gen_extend.

Theorem C03_gen_satisfiable : forall H, wf_hier H ->
  forall fuel sc prog vals s, progG H 0 prog ->
  run_cmds H fuel prog 0 [] (empty_store sc) = (None, vals, s) ->
  exists th, sat H th s /\
    forall v, c_bound (cell_of s v) = None ->
      th v = match c_lower (cell_of s v), c_upper (cell_of s v) with
             | Some l, _ => TOp l []
             | None, Some u => TOp u []
             | None, None => TOp Top []
             end.
Proof. exact gen_satisfiable. Qed.
Print Assumptions C03_gen_satisfiable.

(* what [sat] says (definition of Infer/Sound.v, unfolded) *)
Theorem C03_gen_sat_unfold : forall H th s,
  sat H th s <->
  forall v, wf_ty H (th v) /\
    match c_bound (cell_of s v) with
    | Some t => th v = den th t
    | None =>
        (forall l, c_lower (cell_of s v) = Some l -> exists b, th v = TOp b [] /\ Lub.ole H l b) /\
        (forall u, c_upper (cell_of s v) = Some u -> exists b, th v = TOp b [] /\ Lub.ole H b u)
    end.
Proof. intros. reflexivity. Qed.

(* the CUnify (subtype mode) and CFix commands of the class *)
Theorem C03_gen_cmds : forall H, wf_hier H ->
  forall fuel sc prog vals s, progG H 0 prog ->
  run_cmds H fuel prog 0 [] (empty_store sc) = (None, vals, s) ->
  forall th, sat H th s ->
  (forall a b, In (a, b) (unifs_of prog) -> Sub H (den th (val vals a)) (den th (val vals b))) /\
  (forall a r, In (a, r) (fixes_of prog 0) -> den th (val vals r) = den th (val vals a)).
Proof. exact gen_sound_cmds. Qed.
Print Assumptions C03_gen_cmds.

(* ---- the program class, unfolded ---- *)
Theorem C03_gen_class : forall H n c,
  cmdG H n c <->
  match c with
  | CInst sc =>
      styg H (s_n sc) (s_body sc) /\
      Forall (fun k =>
        match k with
        | SCSub r t _ => styg H (s_n sc) r /\ styg H (s_n sc) t
        | SCElim r alts => styg H (s_n sc) r /\ Forall (styg H (s_n sc)) alts
        end) (s_constrs sc)
  | CApply f x _ => f < n /\ x < n
  | CUnify a b sub => a < n /\ b < n /\ sub = true
  | CFix a _ => a < n
  end.
Proof.
  intros H n c. split.
  - intros [sc Sb Pc|f x b Lf Lx|a b La Lb|a pl La]; auto.
  - destruct c as [sc|f x b|a b sub|a pl].
    + intros (Sb & Pc). constructor; [exact Sb|].
      eapply Forall_impl; [|exact Pc]. intros k Pk. destruct k; exact Pk.
    + intros (Lf & Lx). constructor; auto.
    + intros (La & Lb & ->). constructor; auto.
    + intros La. constructor; auto.
Qed.
Print Assumptions C03_gen_class.

(* n = number of values pushed so far; CUnify pushes none *)
Theorem C03_gen_prog_unfold : forall H n c r,
  progG H n (c :: r) <-> cmdG H n c /\ progG H (match c with CUnify _ _ _ => n | _ => S n end) r.
Proof. intros. reflexivity. Qed.

(* well-scoped, arity-correct schematic types (Infer/Sound.v) *)
Theorem C03_gen_styg_unfold : forall H n t,
  styg H n t <->
  match t with
  | SVar i => i < n
  | SWild => True
  | SOp o args => length args = length (variance H o) /\ Forall (styg H n) args
  end.
Proof.
  intros H n t. split.
  - intros [i Li| |o args La Fa]; auto.
  - destruct t as [i| |o args].
    + intros Li. constructor. exact Li.
    + intros _. constructor.
    + intros (La & Fa). constructor; auto.
Qed.

(* the classes of C03_core, C03_sub and C03_elim are sub-classes *)
Theorem C03_gen_subclasses : forall H prog,
  (progP H 0 prog -> progG H 0 prog) /\
  (progS H 0 prog -> progG H 0 prog) /\
  (progE H 0 prog -> progG H 0 prog).
Proof.
  intros H prog. split; [apply progP_progG|split; [apply progS_progG|apply progE_progG]].
Qed.
Print Assumptions C03_gen_subclasses.

(* ---- the invariants, per operation ----
   [JG H s]  = [Jv H s] (C03_sub: bindings well-scoped and arity-correct,
               bounds proper base operators, lower <= upper) /\ every
               constraint object has a well-scoped, arity-correct reference
               and alternatives
   [goodG H s R s'] = JG s' /\ le s s' /\ fr s s' /\ forall th, sat th s' -> R th *)
Theorem C03_gen_JG_unfold : forall H s,
  JG H s <->
  Jv H s /\
  forall c, c < length (constrs s) ->
    tg H (length (vars s)) (k_ref (constr_of s c)) /\
    Forall (tg H (length (vars s))) (k_alts (constr_of s c)).
Proof. intros H s. reflexivity. Qed.

Theorem C03_gen_goodG_unfold : forall H s R s',
  goodG H s R s' <->
  JG H s' /\
  (length (vars s) <= length (vars s') /\ forall th, sat H th s' -> sat H th s) /\
  fr H s s' /\
  forall th, sat H th s' -> R th.
Proof. intros. reflexivity. Qed.

(* forward soundness of every engine operation on stores with ARBITRARY
   constraint objects: one induction on fuel *)
Theorem C03_gen_ops : forall H, wf_hier H -> forall f, SoundGen.specs H f.
Proof. exact SoundGen.specs_all. Qed.
Print Assumptions C03_gen_ops.

Theorem C03_gen_unify_sound : forall H, wf_hier H -> forall fuel a b s s',
  JG H s -> tg H (length (vars s)) a -> tg H (length (vars s)) b ->
  unify H fuel true false false a b s = MOk tt s' ->
  goodG H s (fun th => Sub H (den th a) (den th b)) s'.
Proof. intros H W fuel a b s s' I Ta Tb E. exact (unify_plain H W fuel a b s I Ta Tb tt s' E). Qed.

(* unify(a, b, subtype, skip_basic) - what a subtype constraint runs - only refines *)
Theorem C03_gen_unify_skip_sound : forall H, wf_hier H -> forall fuel a b s s',
  JG H s -> tg H (length (vars s)) a -> tg H (length (vars s)) b ->
  unify H fuel true true false a b s = MOk tt s' ->
  goodG H s (fun _ => True) s'.
Proof.
  intros H W fuel a b s s' I Ta Tb E.
  eapply goodG_True. exact (unify_soundG H W fuel true a b s I Ta Tb tt s' E).
Qed.

Theorem C03_gen_bind_sound : forall H, wf_hier H -> forall fuel v t s s',
  JG H s -> v < length (vars s) -> tg H (length (vars s)) t ->
  (forall o args, t = O o args -> basic H o = true -> cmpb H (cell_of s v) o) ->
  bind H fuel v t s = MOk tt s' ->
  goodG H s (fun th => th v = den th t) s'.
Proof. intros H W fuel v t s s' I Lv Tt C E. exact (bind_soundG H W fuel v t s I Lv Tt C tt s' E). Qed.

Theorem C03_gen_fix_sound : forall H, wf_hier H -> forall fuel pl t s r s',
  JG H s -> tg H (length (vars s)) t ->
  fix_ty H fuel pl t s = MOk r s' ->
  tg H (length (vars s')) r /\ goodG H s (fun th => den th r = den th t) s'.
Proof. intros H W fuel pl t s r s' I Tt E. exact (fix_soundG H W fuel pl t s I Tt r s' E). Qed.

(* a re-check round, the fulfilment of one constraint of either kind and
   minimize only refine the store, whatever the constraint says *)
Theorem C03_gen_cc_sound : forall H, wf_hier H -> forall fuel v s u s',
  JG H s -> check_constraints H fuel v s = MOk u s' -> goodG H s (fun _ => True) s'.
Proof. intros H W fuel v s u s' I E. exact (cc_soundG H W fuel v s I u s' E). Qed.

Theorem C03_gen_fulfill_sound : forall H, wf_hier H -> forall fuel c s b s',
  JG H s -> fulfill H fuel c s = MOk b s' -> goodG H s (fun _ => True) s'.
Proof. intros H W fuel c s b s' I E. exact (fulfill_soundG H W fuel c s I b s' E). Qed.
Print Assumptions C03_gen_fulfill_sound.

Theorem C03_gen_minimize_sound : forall H, wf_hier H -> forall fuel c s u s',
  JG H s -> minimize H fuel c s = MOk u s' -> goodG H s (fun _ => True) s'.
Proof. intros H W fuel c s u s' I E. exact (minimize_soundG H W fuel c s I u s' E). Qed.

Theorem C03_gen_apply_sound : forall H, wf_hier H -> forall fuel f x fixb s r s',
  JG H s -> tg H (length (vars s)) f -> tg H (length (vars s)) x ->
  apply H fuel f x fixb s = MOk r s' ->
  tg H (length (vars s')) r /\
  goodG H s (fun th =>
    (exists a b, den th f = TOp Function [a; b] /\ Sub H (den th x) a /\ den th r = b) \/
    (den th f = TOp Top [] /\ den th r = TOp Top [])) s'.
Proof. intros H W fuel f x fixb s r s' I Tf Tx E. exact (apply_goodG H W fuel f x fixb s I Tf Tx r s' E). Qed.

Theorem C03_gen_instance_sound : forall H, wf_hier H -> forall fuel sc s r s',
  JG H s -> styg H (s_n sc) (s_body sc) -> Forall (scg H (s_n sc)) (s_constrs sc) ->
  instance H fuel sc s = MOk r s' ->
  JG H s' /\ (le H s s' /\ fr H s s') /\ tg H (length (vars s')) r.
Proof. intros H W fuel sc s r s' I Sb Pc E. exact (instance_goodG H W fuel sc s I Sb Pc r s' E). Qed.

(* the hypotheses of the per-operation statements hold of every reachable store *)
Theorem C03_gen_final : forall H, wf_hier H ->
  forall fuel sc prog vals s, progG H 0 prog ->
  run_cmds H fuel prog 0 [] (empty_store sc) = (None, vals, s) ->
  JG H s /\ inv s /\ Forall (tg H (length (vars s))) vals.
Proof.
  intros H W fuel sc prog vals s P R.
  destruct (gen_final H W fuel sc prog vals s P R) as (I & _ & Fv & Iv & _). auto.
Qed.
Print Assumptions C03_gen_final.

(* ---------- non-vacuity ---------- *)
(* Ord = 5, Obj = 6, Nom = 7 < Ord; C = 8 unary covariant, R = 9 binary covariant *)
Definition gH := mk_hier [(7,5)] [(8,[true]); (9,[true;true])].
Example gH_wf : wf_hier gH.
Proof.
  split.
  - intros o p. cbn. repeat (destruct o as [|o]; try discriminate; cbn); intros [= <-]; auto with arith.
  - intros o p. cbn. repeat (destruct o as [|o]; try discriminate; cbn); intros [= <-]; cbn; repeat split; discriminate.
  - split; reflexivity.
  - split; reflexivity.
  - reflexivity.
Qed.

Definition conc (t : sty) := mkSchema 0 t [].
Ltac styg_tac := repeat (constructor; cbn; auto with arith).

Example conc_ok : forall n t, styg gH 0 t -> cmdG gH n (CInst (conc t)).
Proof. intros n t St. constructor; [exact St|constructor]. Qed.

(* (a)  keys : a ** C(b) [a << [C(b), R(b, _)]]  applied to R(Ord, Obj):
   alternatives with variables and a wildcard *)
Definition keys := mkSchema 2 (SOp Function [SVar 0; SOp 8 [SVar 1]])
  [SCElim (SVar 0) [SOp 8 [SVar 1]; SOp 9 [SVar 1; SWild]]].
Definition ex1_prog := [CInst keys; CInst (conc (SOp 9 [SOp 5 []; SOp 6 []])); CApply 0 1 true].
Definition ex1_run := Eval vm_compute in run_cmds gH 100 ex1_prog 0 [] (empty_store []).
Definition ex1_vals := snd (fst ex1_run).
Definition ex1_s := snd ex1_run.

Example keys_ok : forall n, cmdG gH n (CInst keys).
Proof. intros n. constructor; cbn [s_n s_body s_constrs keys]; styg_tac. Qed.

Example ex1_progG : progG gH 0 ex1_prog.
Proof.
  cbn [progG ex1_prog ExprSound.nxt]. repeat split; try (constructor; auto with arith; fail).
  - apply keys_ok.
  - apply conc_ok. styg_tac.
Qed.

(* ... and it is outside the class of C03_elim *)
Example ex1_not_progE : ~ progE gH 0 ex1_prog.
Proof.
  intros [Pc _]. inversion Pc as [sc Sb Pcs|]; subst. cbn [s_constrs keys] in Pcs.
  inversion Pcs as [|? ? P1 _]; subst. destruct P1 as [P1|P1]; cbn in P1; [exact P1|].
  destruct P1 as (_ & l & _ & E). destruct l as [|b l]; discriminate.
Qed.

Example ex1_accepted : run_cmds gH 100 ex1_prog 0 [] (empty_store []) = (None, ex1_vals, ex1_s).
Proof. vm_compute. reflexivity. Qed.

Example ex1_state :
  ex1_vals = [O Function [V 0; O 8 [V 1]]; O 9 [O 5 []; O 6 []]; O 8 [V 1]] /\
  map (fun c => (c_bound c, c_lower c, c_upper c)) (vars ex1_s) =
    [(Some (O 9 [O 5 []; O 6 []]), None, None); (Some (O 5 []), Some 5, None); (None, Some 6, None)] /\
  map (fun k => (k_elim k, k_ref k, k_alts k, k_done k)) (constrs ex1_s) =
    [(true, O 9 [O 5 []; O 6 []], [O 9 [V 1; V 2]], true)].
Proof. vm_compute. repeat split. Qed.

(* the theorems applied: under a satisfying grounding keys has type
   R(Ord, Obj) ** C(Ord), the argument fits, the result is C(Ord) *)
Example ex1_holds : exists th, sat gH th ex1_s /\
  den th (val ex1_vals 0) = TOp Function [TOp 9 [TOp 5 []; TOp 6 []]; TOp 8 [TOp 5 []]] /\
  Sub gH (den th (val ex1_vals 1)) (TOp 9 [TOp 5 []; TOp 6 []]) /\
  den th (val ex1_vals 2) = TOp 8 [TOp 5 []].
Proof.
  destruct (C03_gen_satisfiable gH gH_wf 100 [] ex1_prog ex1_vals ex1_s ex1_progG ex1_accepted) as (th & S & _).
  exists th. split; [exact S|].
  pose proof (S 0) as [_ S0]. pose proof (S 1) as [_ S1]. vm_compute in S0, S1.
  assert (E0 : den th (val ex1_vals 0) = TOp Function [TOp 9 [TOp 5 []; TOp 6 []]; TOp 8 [TOp 5 []]]).
  { change (den th (val ex1_vals 0)) with (TOp Function [th 0; TOp 8 [th 1]]). rewrite S0, S1. reflexivity. }
  destruct (C03_gen_sound gH gH_wf 100 [] ex1_prog ex1_vals ex1_s ex1_progG ex1_accepted th S 0 1 2)
    as [(a & b & Ef & Sx & Er)|(Ef & _)]; [left; reflexivity| |rewrite E0 in Ef; discriminate].
  rewrite E0 in Ef. injection Ef as <- <-. auto.
Qed.

(* (b)  a compound reference:  x ** y ** (x * y)  [R(x, y) << [R(Ord, _), R(Obj, y)]]
   applied to Nom then Obj: the first alternative is left, unify(R(x,y), R(Ord,_))
   gives x the upper bound Ord *)
Definition kk := mkSchema 2 (SOp Function [SVar 0; SOp Function [SVar 1; SOp Product [SVar 0; SVar 1]]])
  [SCElim (SOp 9 [SVar 0; SVar 1]) [SOp 9 [SOp 5 []; SWild]; SOp 9 [SOp 6 []; SVar 1]]].
Definition ex2_prog := [CInst kk; CInst (conc (SOp 7 [])); CInst (conc (SOp 6 [])); CApply 0 1 false; CApply 3 2 true].
Definition ex2_run := Eval vm_compute in run_cmds gH 100 ex2_prog 0 [] (empty_store []).
Definition ex2_vals := snd (fst ex2_run).
Definition ex2_s := snd ex2_run.

Example kk_ok : forall n, cmdG gH n (CInst kk).
Proof. intros n. constructor; cbn [s_n s_body s_constrs kk]; styg_tac. Qed.

Example ex2_progG : progG gH 0 ex2_prog.
Proof.
  cbn [progG ex2_prog ExprSound.nxt]. repeat split; try (constructor; auto with arith; fail).
  - apply kk_ok.
  - apply conc_ok. styg_tac.
  - apply conc_ok. styg_tac.
Qed.

Example ex2_not_progE : ~ progE gH 0 ex2_prog.
Proof.
  intros [Pc _]. inversion Pc as [sc Sb Pcs|]; subst. cbn [s_constrs kk] in Pcs.
  inversion Pcs as [|? ? P1 _]; subst. destruct P1 as [P1|P1]; cbn in P1; exact P1.
Qed.

Example ex2_accepted : run_cmds gH 100 ex2_prog 0 [] (empty_store []) = (None, ex2_vals, ex2_s).
Proof. vm_compute. reflexivity. Qed.

Example ex2_state :
  map (fun c => (c_bound c, c_lower c, c_upper c)) (vars ex2_s) =
    [(Some (O 7 []), Some 7, Some 5); (Some (V 2), None, None); (Some (O 6 []), Some 6, None)] /\
  map (fun k => (k_elim k, k_ref k, k_alts k, k_done k)) (constrs ex2_s) =
    [(true, O 9 [V 0; V 1], [O 9 [O 5 []; V 2]], true)].
Proof. vm_compute. repeat split. Qed.

Example ex2_holds : forall th, sat gH th ex2_s ->
  (exists a b, den th (val ex2_vals 3) = TOp Function [a; b] /\
               Sub gH (den th (val ex2_vals 2)) a /\ den th (val ex2_vals 4) = b).
Proof.
  intros th S.
  destruct (C03_gen_sound gH gH_wf 100 [] ex2_prog ex2_vals ex2_s ex2_progG ex2_accepted th S 3 2 4)
    as [X|(Ef & _)]; [right; left; reflexivity|exact X|discriminate].
Qed.

(* the bound written by the elimination constraint is kept: x, resolved to Nom,
   carried the bounds Nom..Ord and was resolved to a base type *)
Example ex2_bounded : forall o args, follow ex2_s (O 7 []) = O o args -> args = [].
Proof.
  intros o args. apply (C03_gen_bounded gH gH_wf 100 [] ex2_prog ex2_vals ex2_s ex2_progG ex2_accepted 0 (O 7 [])).
  - reflexivity.
  - left. vm_compute. discriminate.
Qed.

(* (c)  a function-type alternative:  x ** x  [x << [Ord ** Ord, Obj]]  applied to
   Ord ** Nom  (a subtype of Ord ** Ord) *)
Definition ff := mkSchema 1 (SOp Function [SVar 0; SVar 0])
  [SCElim (SVar 0) [SOp Function [SOp 5 []; SOp 5 []]; SOp 6 []]].
Definition ex3_prog := [CInst ff; CInst (conc (SOp Function [SOp 5 []; SOp 7 []])); CApply 0 1 true].
Definition ex3_run := Eval vm_compute in run_cmds gH 100 ex3_prog 0 [] (empty_store []).
Definition ex3_vals := snd (fst ex3_run).
Definition ex3_s := snd ex3_run.

Example ff_ok : forall n, cmdG gH n (CInst ff).
Proof. intros n. constructor; cbn [s_n s_body s_constrs ff]; styg_tac. Qed.

Example ex3_progG : progG gH 0 ex3_prog.
Proof.
  cbn [progG ex3_prog ExprSound.nxt]. repeat split; try (constructor; auto with arith; fail).
  - apply ff_ok.
  - apply conc_ok. styg_tac.
Qed.

Example ex3_not_progE : ~ progE gH 0 ex3_prog.
Proof.
  intros [Pc _]. inversion Pc as [sc Sb Pcs|]; subst. cbn [s_constrs ff] in Pcs.
  inversion Pcs as [|? ? P1 _]; subst. destruct P1 as [P1|P1]; cbn in P1; [exact P1|].
  destruct P1 as (_ & l & _ & E). destruct l as [|b l]; discriminate.
Qed.

Example ex3_accepted : run_cmds gH 100 ex3_prog 0 [] (empty_store []) = (None, ex3_vals, ex3_s).
Proof. vm_compute. reflexivity. Qed.

Example ex3_state :
  ex3_vals = [O Function [V 0; V 0]; O Function [O 5 []; O 7 []]; O Function [O 5 []; O 7 []]] /\
  map (fun k => (k_elim k, k_ref k, k_alts k, k_done k)) (constrs ex3_s) =
    [(true, O Function [O 5 []; O 7 []], [O Function [O 5 []; O 5 []]], true)].
Proof. vm_compute. repeat split. Qed.

Example ex3_holds : forall th, sat gH th ex3_s ->
  (exists a b, den th (val ex3_vals 0) = TOp Function [a; b] /\
               Sub gH (den th (val ex3_vals 1)) a /\ den th (val ex3_vals 2) = b).
Proof.
  intros th S.
  destruct (C03_gen_sound gH gH_wf 100 [] ex3_prog ex3_vals ex3_s ex3_progG ex3_accepted th S 0 1 2)
    as [X|(Ef & _)]; [left; reflexivity|exact X|discriminate].
Qed.

(* (d)  a subtype constraint with a compound target:  x ** y  [x <= C(y)]  applied to
   C(Nom): unify(x, C(y), subtype, skip_basic) binds x := C(z), z fresh *)
Definition sc4 := mkSchema 2 (SOp Function [SVar 0; SVar 1]) [SCSub (SVar 0) (SOp 8 [SVar 1]) false].
Definition ex4_prog := [CInst sc4; CInst (conc (SOp 8 [SOp 7 []])); CApply 0 1 true;
                        CInst (conc (SOp 8 [SOp 5 []])); CUnify 1 3 true; CFix 2 false].
Definition ex4_run := Eval vm_compute in run_cmds gH 100 ex4_prog 0 [] (empty_store []).
Definition ex4_vals := snd (fst ex4_run).
Definition ex4_s := snd ex4_run.

Example sc4_ok : forall n, cmdG gH n (CInst sc4).
Proof. intros n. constructor; cbn [s_n s_body s_constrs sc4]; styg_tac. Qed.

Example ex4_progG : progG gH 0 ex4_prog.
Proof.
  cbn [progG ex4_prog ExprSound.nxt]. repeat split; try (constructor; auto with arith; fail).
  - apply sc4_ok.
  - apply conc_ok. styg_tac.
  - apply conc_ok. styg_tac.
Qed.

Example ex4_not_progS : ~ progS gH 0 ex4_prog.
Proof.
  intros [Pc _]. inversion Pc as [sc Sb Pcs|]; subst. cbn [s_constrs sc4] in Pcs.
  inversion Pcs as [|? ? P1 _]; subst. cbn in P1. exact P1.
Qed.

Example ex4_accepted : run_cmds gH 100 ex4_prog 0 [] (empty_store []) = (None, ex4_vals, ex4_s).
Proof. vm_compute. reflexivity. Qed.

Example ex4_cmds : forall th, sat gH th ex4_s ->
  Sub gH (den th (val ex4_vals 1)) (den th (val ex4_vals 3)) /\
  den th (val ex4_vals 4) = den th (val ex4_vals 2).
Proof.
  intros th S.
  destruct (C03_gen_cmds gH gH_wf 100 [] ex4_prog ex4_vals ex4_s ex4_progG ex4_accepted th S) as (U & F).
  split; [apply U; left; reflexivity|apply F; left; reflexivity].
Qed.

(* (e)  rejected: keys applied to the base type Ord - no alternative is left *)
Definition ex5_prog := [CInst keys; CInst (conc (SOp 5 [])); CApply 0 1 true].
Example ex5_progG : progG gH 0 ex5_prog.
Proof.
  cbn [progG ex5_prog ExprSound.nxt]. repeat split; try (constructor; auto with arith; fail).
  - apply keys_ok.
  - apply conc_ok. styg_tac.
Qed.
Example ex5_rejected :
  fst (fst (run_cmds gH 100 ex5_prog 0 [] (empty_store []))) = Some (EConstraintViolation, 2).
Proof. vm_compute. reflexivity. Qed.
