(* C18  Inference is independent of the order pending constraints are re-examined.

   Full statement: for all hierarchies, programs and schedules sc1 sc2,
     outcome (run_cmds H fuel prog 0 [] (empty_store sc1)) =
     outcome (run_cmds H fuel prog 0 [] (empty_store sc2))
   where outcome = success / kind of failure, result, residual bounds and
   residual constraints.  On the faithful model (and on the code) this is
   FALSE for the kind of failure: C18_refuted below.  What holds universally
   and is proved: a schedule can only reorder the pending constraints, never
   drop or repeat one (C18_permute), and entry 0 is the creation order
   (C18_default_order).  Independence of success/result/bounds/constraints is
   not proved; it is searched exhaustively per generated case (all permutations
   at every re-check point) on model and implementation - testing, not proof. *)
From Coq Require Import List Arith Bool Permutation.
Import ListNotations.
From TF Require Import Base.Hier Base.Ty Infer.Store Infer.Engine Infer.Run Infer.Sched.

Theorem C18_permute : forall fuel r l, length l <= fuel -> Permutation (permute fuel r l) l.
Proof. exact permute_perm. Qed.
Print Assumptions C18_permute.

Theorem C18_default_order : forall fuel l, length l <= fuel -> permute fuel 0 l = l.
Proof. exact permute_zero. Qed.
Print Assumptions C18_default_order.

(* A=5, B=6 < A, G=7 binary covariant.
   x ** x [x <= A, x << [A, G(B, x)]] applied to B * B:
   re-checking the subtype constraint first raises TypeMismatch, re-checking
   the elimination constraint first raises ConstraintViolation. *)
Definition wH := mk_hier [(6,5)] [(7,[true;true])].
Definition wsig := mkSchema 1 (SOp Function [SVar 0; SVar 0])
  [SCSub (SVar 0) (SOp 5 []) false; SCElim (SVar 0) [SOp 5 []; SOp 7 [SOp 6 []; SVar 0]]].
Definition wprog := [CInst wsig; CInst (mkSchema 0 (SOp Product [SOp 6 []; SOp 6 []]) []); CApply 0 1 true].

Theorem C18_refuted : exists H prog sc1 sc2 e1 e2,
  fst (fst (run_cmds H 400 prog 0 [] (empty_store sc1))) = Some (e1, 2) /\
  fst (fst (run_cmds H 400 prog 0 [] (empty_store sc2))) = Some (e2, 2) /\
  e1 = ETypeMismatch /\ e2 = EConstraintViolation.
Proof.
  exists wH, wprog, [], [1], ETypeMismatch, EConstraintViolation.
  vm_compute. repeat split; reflexivity.
Qed.
Print Assumptions C18_refuted.
