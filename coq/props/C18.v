(* C18  Inference is independent of the order pending constraints are re-examined.

   Full statement: for all hierarchies, programs and schedules sc1 sc2,
     outcome (run_cmds H fuel prog 0 [] (empty_store sc1)) =
     outcome (run_cmds H fuel prog 0 [] (empty_store sc2))
   where outcome = success / kind of failure, result, residual bounds and
   residual constraints.  On the faithful model (and on the code) this is
   FALSE for the kind of failure: C18_refuted below.  What holds universally
   and is proved: a schedule can only reorder the pending constraints, never
   drop or repeat one (C18_permute), and entry 0 is the creation order
   (C18_default_order).  Independence of success/result/bounds/constraints is
   not proved; it is searched exhaustively per generated case (all permutations
   at every re-check point) on model and implementation - testing, not proof. *)
From Coq Require Import List Arith Bool Permutation.
Import ListNotations.
From TF Require Import Base.Hier Base.Ty Infer.Store Infer.Engine Infer.Run Infer.Sched.

Theorem C18_permute : forall fuel r l, length l <= fuel -> Permutation (permute fuel r l) l.
Proof. exact permute_perm. Qed.
Print Assumptions C18_permute.

Theorem C18_default_order : forall fuel l, length l <= fuel -> permute fuel 0 l = l.
Proof. exact permute_zero. Qed.
Print Assumptions C18_default_order.

(* A=5, B=6 < A, G=7 binary covariant.
   x ** x [x <= A, x << [A, G(B, x)]] applied to B * B:
   re-checking the subtype constraint first raises TypeMismatch, re-checking
   the elimination constraint first raises ConstraintViolation. *)
Definition wH := mk_hier [(6,5)] [(7,[true;true])].
Definition wsig := mkSchema 1 (SOp Function [SVar 0; SVar 0])
  [SCSub (SVar 0) (SOp 5 []) false; SCElim (SVar 0) [SOp 5 []; SOp 7 [SOp 6 []; SVar 0]]].
Definition wprog := [CInst wsig; CInst (mkSchema 0 (SOp Product [SOp 6 []; SOp 6 []]) []); CApply 0 1 true].

Theorem C18_refuted : exists H prog sc1 sc2 e1 e2,
  fst (fst (run_cmds H 400 prog 0 [] (empty_store sc1))) = Some (e1, 2) /\
  fst (fst (run_cmds H 400 prog 0 [] (empty_store sc2))) = Some (e2, 2) /\
  e1 = ETypeMismatch /\ e2 = EConstraintViolation.
Proof.
  exists wH, wprog, [], [1], ETypeMismatch, EConstraintViolation.
  vm_compute. repeat split; reflexivity.
Qed.
Print Assumptions C18_refuted.

(* The outcome itself can depend on the order.  A=5, F=7 unary covariant,
   G=8 binary (contra, co), K=9 unary contravariant.
   x ** K(y) [x << [F(y), A], x << [G(A, y), F(A)]] applied to F(A):
   creation order resolves y and returns K(A); re-checking the second
   constraint first returns K(y) with y only bounded below by A. *)
Definition rH := mk_hier [(6,5)] [(7,[true]); (8,[false;true]); (9,[false])].
Definition rsig := mkSchema 2 (SOp Function [SVar 0; SOp 9 [SVar 1]])
  [SCElim (SVar 0) [SOp 7 [SVar 1]; SOp 5 []];
   SCElim (SVar 0) [SOp 8 [SOp 5 []; SVar 1]; SOp 7 [SOp 5 []]]].
Definition rprog := [CInst rsig; CInst (mkSchema 0 (SOp 7 [SOp 5 []]) []); CApply 0 1 true].
Fixpoint deep (fuel : nat) (s : store) (t : tyv) : tyv :=
  match fuel with
  | 0 => t
  | S f => match follow s t with
           | V v => V v
           | O o args => O o (map (deep f s) args)
           end
  end.
Definition result_of (r : (option (err * nat)) * list tyv * store) : option tyv :=
  let '(e, vals, s) := r in
  match e with Some _ => None | None => Some (deep 50 s (last vals (V 0))) end.

Theorem C18_refuted_result : exists H prog sc1 sc2 v,
  result_of (run_cmds H 400 prog 0 [] (empty_store sc1)) = Some (O 9 [O 5 []]) /\
  let r2 := run_cmds H 400 prog 0 [] (empty_store sc2) in
  result_of r2 = Some (O 9 [V v]) /\
  c_bound (cell_of (snd r2) v) = None /\ c_lower (cell_of (snd r2) v) = Some 5.
Proof.
  exists rH, rprog, [], [1]. eexists. vm_compute. repeat split; reflexivity.
Qed.
Print Assumptions C18_refuted_result.
