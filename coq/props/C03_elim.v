(* C03 (elimination constraints over base-type alternatives)  Every accepted
   polymorphic application has a witnessing instantiation, and every resolved
   constraint holds - the UNCONDITIONAL statement for the engine model
   (Infer/Engine.v) on programs of CInst / CApply commands whose schemas carry

        x << [A1, ..., An]    SCElim (SVar i) [SOp a1 []; ...; SOp an []]
                              i a schematic variable of the schema, every aj a
                              user base operator ([FL.good]: no parameters,
                              neither Top nor Bottom), n >= 0, no distinctness
                              or incomparability assumption
        x <= A     x < A      SCSub (SVar i) (SOp a []) strict   (as C03_sub)

   in any number and any mixture.  Class [progE H 0 prog]
   (Infer/SoundElimS.v; unfolded in C03_elim_class).  Proofs:
   Infer/SoundElimS.v (forward soundness), Infer/SoundElimK.v (constraint
   invariant), Infer/SoundElim.v (assembly).

   Unlike a pure subtype constraint, fulfilling an elimination constraint
   WRITES variable cells: with one alternative a left it sets the fulfilled flag
   and calls unify(ref, a, subtype) = below(ref, a), which may start further
   re-check rounds.  So the erasure argument of C03_sub does not apply: the
   induction on fuel of C03_core is redone over unify / bind / above / below /
   fix_ty / check_constraints / fulfill with check_constraints live
   (C03_elim_ops; minimize and the filter loop in closed form, C06_list).

   C03_elim_sound, for every wf_hier H, fuel, schedule, accepted progE program:
     (i)+(ii) for EVERY grounding th with [sat H th s] every apply step (f, x, r)
              has den f = Function [a; b], Sub (den x) a, den r = b (or den f =
              Top = den r)                          - as C03_core_sound;
     (iii)    every elimination constraint c whose reference is resolved
              (follows to O o args) has a DECLARED alternative a
              (a in [nth c (decls prog) []], the c-th constraint the program
              creates: C03_elim_decls) with Sub (TOp o []) (TOp a []);
              every subtype constraint whose reference is resolved holds
              (statement of C03_sub_sound);
     (iv)     a variable that carries a bound is never resolved to a compound
              type.
   C03_elim_constraints: the whole constraint invariant on the final store
   (alternatives = user base operators among the declared ones; fulfilled =>
   one alternative a left and EVERY satisfying grounding puts the reference
   below a; pending and resolved => alternatives non-empty and all above the
   resolved operator; pending and unresolved => ATTACHED to the constraint set
   of the unbound variable the reference follows to).
   C03_elim_satisfiable: a satisfying grounding exists (non-vacuity of (i)/(ii)
   and the step from the semantic done clause to (iii)).

   Not covered (still missing for full C03): elimination constraints whose
   alternatives are compound types or contain variables, references that are
   not a bare schematic variable, subtype constraints with a non-base target;
   CUnify / CFix commands. *)
From Coq Require Import List Arith Bool.
Import ListNotations.
From TF Require Import Base.Hier Base.Ty Sub.SubSpec Infer.Store Infer.Engine Infer.Run
  Infer.Witness Infer.Check Infer.Inv Infer.Sound Infer.SchedIndep Infer.SoundSub
  Infer.SoundElimS Infer.SoundElimK Infer.SoundElim.
From TF Require Infer.Lub Infer.FitsEngineList.

(* ---- the main theorem ---- *)
Theorem C03_elim_sound : forall H, wf_hier H ->
  forall fuel sc prog vals s, progE H 0 prog ->
  run_cmds H fuel prog 0 [] (empty_store sc) = (None, vals, s) ->
  (* (i)+(ii) *)
  (forall th, sat H th s -> forall f x r, In (f, x, r) (steps_of prog 0) ->
     (exists a b, den th (val vals f) = TOp Function [a; b] /\
                  Sub H (den th (val vals x)) a /\ den th (val vals r) = b) \/
     (den th (val vals f) = TOp Top [] /\ den th (val vals r) = TOp Top [])) /\
  (* (iii) elimination constraints *)
  (forall c, c < length (constrs s) -> k_elim (constr_of s c) = true ->
     forall o args, follow s (k_ref (constr_of s c)) = O o args ->
     exists a, In a (nth c (decls prog) []) /\ Sub H (TOp o []) (TOp a [])) /\
  (* (iii) subtype constraints *)
  (forall c, c < length (constrs s) -> k_elim (constr_of s c) = false ->
     exists a, k_alts (constr_of s c) = [O a []] /\
       forall o args, follow s (k_ref (constr_of s c)) = O o args ->
         Sub H (TOp o []) (TOp a []) /\ (k_strict (constr_of s c) = true -> o <> a) /\
         (args = [] \/ a = Top)) /\
  (* (iv) *)
  (forall v t o args, c_bound (cell_of s v) = Some t ->
     (c_lower (cell_of s v) <> None \/ c_upper (cell_of s v) <> None) ->
     follow s t = O o args -> args = []).
Proof. exact elim_sound. Qed.
Print Assumptions C03_elim_sound.

(* ---- the program class, unfolded ---- *)
Theorem C03_elim_class : forall H n c,
  cmdE H n c <->
  match c with
  | CInst sc =>
      styg H (s_n sc) (s_body sc) /\
      Forall (fun k =>
        match k with
        | SCSub (SVar i) (SOp a []) _ => i < s_n sc /\ variance H a = []
        | SCElim (SVar i) alts =>
            i < s_n sc /\
            exists l, Forall (fun b => variance H b = [] /\ b <> Top /\ b <> Bottom) l /\
                      alts = map (fun b => SOp b []) l
        | _ => False
        end) (s_constrs sc)
  | CApply f x _ => f < n /\ x < n
  | _ => False
  end.
Proof.
  intros H n c. split.
  - intros [sc Sb Pc|f x b Lf Lx]; [|auto]. split; [exact Sb|].
    eapply Forall_impl; [|exact Pc]. intros k [Pk|Pk].
    + destruct k as [r t st|r alts]; cbn in Pk; [|tauto]. exact Pk.
    + destruct k as [r t st|r alts]; cbn in Pk; [tauto|]. exact Pk.
  - destruct c as [sc|f x b|a b sub|a pl]; try tauto.
    + intros (Sb & Pc). constructor; [exact Sb|].
      eapply Forall_impl; [|exact Pc]. intros k Pk.
      destruct k as [r t st|r alts].
      * left. exact Pk.
      * right. exact Pk.
    + intros (Lf & Lx). constructor; auto.
Qed.
Print Assumptions C03_elim_class.

Theorem C03_elim_prog_unfold : forall H n c r, progE H n (c :: r) <-> cmdE H n c /\ progE H (S n) r.
Proof. intros. reflexivity. Qed.

(* the DECLARED alternatives: [decls prog] lists, in creation order, the
   operators each schema constraint of the program declares; constraint number
   c of the final store was created from entry c ([C03_elim_constraints] gives
   length (constrs s) = ncons prog = length (decls prog)) *)
Theorem C03_elim_decls : forall sc r i l a b st,
  decls (CInst sc :: r) = map decl (s_constrs sc) ++ decls r /\
  (forall f x fb, decls (CApply f x fb :: r) = decls r) /\
  decl (SCElim (SVar i) (map (fun b => SOp b []) l)) = l /\
  decl (SCSub b (SOp a []) st) = [a].
Proof.
  intros. split; [reflexivity|split; [reflexivity|split; [|reflexivity]]].
  apply map_sop_sb.
Qed.

Theorem C03_elim_decls_length : forall prog, length (decls prog) = ncons prog.
Proof.
  induction prog as [|c r IH]; [reflexivity|]. cbn [decls ncons]. rewrite app_length, IH. f_equal.
  destruct c; cbn; try reflexivity. apply map_length.
Qed.

(* ---- the whole constraint invariant on the final store ---- *)
Theorem C03_elim_constraints : forall H, wf_hier H ->
  forall fuel sc prog vals s, progE H 0 prog ->
  run_cmds H fuel prog 0 [] (empty_store sc) = (None, vals, s) ->
  length (constrs s) = ncons prog /\
  forall c, c < length (constrs s) ->
  let k := constr_of s c in
  tg H (length (vars s)) (k_ref k) /\
  if k_elim k then
    (* alternatives: user base operators, all among the declared ones *)
    (exists l, Forall (fun b => variance H b = [] /\ b <> Top /\ b <> Bottom) l /\
               k_alts k = map (fun b => O b []) l /\ incl l (nth c (decls prog) [])) /\
    (* fulfilled: one alternative left, the reference is below it under every grounding *)
    (k_done k = true ->
       exists a, k_alts k = [O a []] /\
         forall th, sat H th s -> Sub H (den th (k_ref k)) (TOp a [])) /\
    (* pending *)
    (k_done k = false ->
       (forall o args, follow s (k_ref k) = O o args ->
          k_alts k <> [] /\ forall m, In (O m []) (k_alts k) -> Sub H (TOp o []) (TOp m [])) /\
       (forall u, follow s (k_ref k) = V u -> In c (cset_of s (c_cs (cell_of s u)))))
  else
    exists a, k_alts k = [O a []] /\ variance H a = [] /\
      (forall o args, follow s (k_ref k) = O o args ->
         Sub H (TOp o []) (TOp a []) /\ (k_strict k = true -> o <> a)) /\
      (forall u, follow s (k_ref k) = V u ->
         if k_done k then a = Top /\ k_strict k = false
         else In c (cset_of s (c_cs (cell_of s u)))).
Proof. exact elim_constraints. Qed.
Print Assumptions C03_elim_constraints.

(* (iii) with the witness also among the CURRENT alternatives *)
Theorem C03_elim_constraints_hold : forall H, wf_hier H ->
  forall fuel sc prog vals s, progE H 0 prog ->
  run_cmds H fuel prog 0 [] (empty_store sc) = (None, vals, s) ->
  forall c, c < length (constrs s) -> k_elim (constr_of s c) = true ->
  forall o args, follow s (k_ref (constr_of s c)) = O o args ->
  exists a, In a (nth c (decls prog) []) /\ In (O a []) (k_alts (constr_of s c)) /\
            Sub H (TOp o []) (TOp a []).
Proof. exact elim_constraints_hold. Qed.
Print Assumptions C03_elim_constraints_hold.

Theorem C03_elim_satisfiable : forall H, wf_hier H ->
  forall fuel sc prog vals s, progE H 0 prog ->
  run_cmds H fuel prog 0 [] (empty_store sc) = (None, vals, s) ->
  exists th, sat H th s /\
    forall v, c_bound (cell_of s v) = None ->
      th v = match c_lower (cell_of s v), c_upper (cell_of s v) with
             | Some l, _ => TOp l []
             | None, Some u => TOp u []
             | None, None => TOp Top []
             end.
Proof. exact elim_satisfiable. Qed.
Print Assumptions C03_elim_satisfiable.

(* ---- the invariants, per operation ----
   [JE H s]  = [Jv H s] (C03_sub) /\ every constraint object well-shaped ([cw]:
               reference well-scoped and arity-correct; subtype: one base target;
               elimination: alternatives user base operators)
   [goodE H s R s'] = JE s' /\ le s s' /\ fr s s' /\ (cx s s' /\ no constraint
               created) /\ forall th, sat th s' -> R th, where [cx] = kinds and
               fulfilled elimination constraints are frozen ([cfr]) and every
               elimination constraint fulfilled on the way satisfies its done
               clause ([nd], [dcl])
   [Kp H D pend s] = every constraint satisfies [cst] (C03_elim_K_unfold), [pend] =
               the constraints still waiting for their re-check in an enclosing round *)
Theorem C03_elim_JE_unfold : forall H s,
  JE H s <->
  Jv H s /\
  forall c, c < length (constrs s) ->
    tg H (length (vars s)) (k_ref (constr_of s c)) /\
    if k_elim (constr_of s c)
    then exists l, Forall (FL.good H) l /\ k_alts (constr_of s c) = FL.obs l
    else exists a, k_alts (constr_of s c) = [O a []] /\ basic H a = true.
Proof. intros H s. reflexivity. Qed.

Theorem C03_elim_goodE_unfold : forall H s R s',
  goodE H s R s' <->
  JE H s' /\ le H s s' /\ fr H s s' /\
  ((cfr s s' /\
    (forall c, k_elim (constr_of s' c) = true -> k_done (constr_of s' c) = true ->
               k_done (constr_of s c) = false ->
       exists a, k_alts (constr_of s' c) = [O a []] /\
         forall th, sat H th s' -> Sub H (den th (k_ref (constr_of s' c))) (TOp a []))) /\
   length (constrs s') = length (constrs s)) /\
  forall th, sat H th s' -> R th.
Proof. intros. reflexivity. Qed.

Theorem C03_elim_K_unfold : forall H D pend s,
  Kp H D pend s <->
  forall c, c < length (constrs s) ->
    let k := constr_of s c in
    (if k_elim k then exists l, Forall (FL.good H) l /\ k_alts k = FL.obs l /\ incl l (nth c D [])
     else exists a, k_alts k = [O a []] /\ basic H a = true) /\
    forall r, rsv s (k_ref k) r ->
      match r with
      | O o args =>
          (if k_elim k
           then k_done k = true \/
                (k_alts k <> [] /\
                 forall m, In (O m []) (k_alts k) -> o = Bottom \/ (basic H o = true /\ Lub.ole H o m))
           else exists a, k_alts k = [O a []] /\ hold H o a (k_strict k))
          \/ (k_done k = false /\ pend c)
      | V u =>
          if k_done k
          then (if k_elim k then True else exists a, k_alts k = [O a []] /\ a = Top /\ k_strict k = false)
          else In c (cset_of s (c_cs (cell_of s u)))
      end.
Proof. intros. reflexivity. Qed.

(* forward soundness of every engine operation on stores WITH constraints of
   both kinds: one induction on fuel *)
Theorem C03_elim_ops : forall H, wf_hier H -> forall f, SoundElimS.specs H f.
Proof. exact SoundElimS.specs_all. Qed.
Print Assumptions C03_elim_ops.

Theorem C03_elim_unify_sound : forall H, wf_hier H -> forall fuel a b s s',
  JE H s -> tg H (length (vars s)) a -> tg H (length (vars s)) b ->
  unify H fuel true false false a b s = MOk tt s' ->
  goodE H s (fun th => Sub H (den th a) (den th b)) s'.
Proof. intros H W fuel a b s s' I Ta Tb E. exact (unify_soundE H W fuel a b s I Ta Tb tt s' E). Qed.

Theorem C03_elim_below_sound : forall H, wf_hier H -> forall fuel v new s s',
  JE H s -> v < length (vars s) -> variance H new = [] -> new <> Top ->
  below H fuel v new s = MOk tt s' ->
  goodE H s (fun th => exists b, th v = TOp b [] /\ Lub.ole H b new) s'.
Proof. intros H W fuel v new s s' I Lv Vn N E. exact (below_soundE H W fuel v new s I Lv Vn N tt s' E). Qed.

(* a re-check round and the fulfilment of one constraint only refine the store *)
Theorem C03_elim_cc_sound : forall H, wf_hier H -> forall fuel v s u s',
  JE H s -> check_constraints H fuel v s = MOk u s' -> goodE H s (fun _ => True) s'.
Proof. intros H W fuel v s u s' I E. exact (cc_soundE H W fuel v s I u s' E). Qed.

Theorem C03_elim_fulfill_sound : forall H, wf_hier H -> forall fuel c s b s',
  JE H s -> fulfill H fuel c s = MOk b s' -> goodE H s (fun _ => True) s'.
Proof. intros H W fuel c s b s' I E. exact (fulfill_soundE H W fuel c s I b s' E). Qed.
Print Assumptions C03_elim_fulfill_sound.

(* the constraint invariant is preserved by every engine operation, for every
   set of constraints pending in enclosing re-check rounds: one induction on fuel *)
Theorem C03_elim_K_ops : forall H, wf_hier H -> forall f, specsK H f.
Proof. exact specsK_all. Qed.
Print Assumptions C03_elim_K_ops.

(* fulfilling constraint c discharges it from the pending set *)
Theorem C03_elim_fulfill_K : forall H, wf_hier H -> forall fuel D pend c s,
  invb true s -> Kp H D pend s -> c < length (constrs s) ->
  match fulfill H fuel c s with
  | MOk b s' => invb true s' /\ ext s s' /\
                Kp H D (fun x => pend x /\ x <> c) s' /\ (b = true -> k_done (constr_of s' c) = true)
  | MEr e s' => invb true s' /\ ext s s' /\ forall n, e <> ECrash n
  end.
Proof. intros H W fuel D pend c s I Kk Lc. exact (fulfillK H W fuel D pend c s I Kk Lc). Qed.
Print Assumptions C03_elim_fulfill_K.

(* closed form of fulfilling a pending elimination constraint over base
   alternatives: minimize ([FL.mins_of]), filter ([keep] = the verdict of
   match(ref, alt, subtype, accept_wildcard)), then the case split *)
Theorem C03_elim_fulfill_form : forall H f c s l b s',
  k_elim (constr_of s c) = true -> k_done (constr_of s c) = false ->
  Forall (FL.good H) l -> k_alts (constr_of s c) = FL.obs l -> c < length (constrs s) ->
  fulfill H (S f) c s = MOk b s' ->
  let k := constr_of s c in
  let r0 := follow s (k_ref k) in
  let s1 := set_constr s c (set_alts k r0 (FL.obs (FL.mins_of H l)) false) in
  let l2 := filter (keep H f s1 r0) (FL.mins_of H l) in
  let s2 := set_constr s c (set_alts k r0 (FL.obs l2) false) in
  (exists g, f = S (S g)) /\
  ((exists m1 m2 rest, l2 = m1 :: m2 :: rest /\ s' = s2 /\ b = false) \/
   (exists m u, l2 = [m] /\
     unify H f true false false r0 (FL.ob m) (set_constr s c (set_alts k r0 [FL.ob m] true)) = MOk u s' /\
     b = k_done (constr_of s' c))).
Proof. exact fulfill_elim_form. Qed.
Print Assumptions C03_elim_fulfill_form.

(* the hypotheses of the per-operation statements hold of every reachable store *)
Theorem C03_elim_final : forall H, wf_hier H ->
  forall fuel sc prog vals s, progE H 0 prog ->
  run_cmds H fuel prog 0 [] (empty_store sc) = (None, vals, s) ->
  invb true s /\ Kp H (decls prog) none s /\ JE H s /\ dn H s /\ Forall (tg H (length (vars s))) vals.
Proof. exact elim_final. Qed.
Print Assumptions C03_elim_final.

(* ---------- non-vacuity ---------- *)
(* A = 5, B = 6 < A, C = 7 (unrelated), F = 8 unary covariant *)
Definition exH := mk_hier [(6,5)] [(8,[true])].
Example exH_wf : wf_hier exH.
Proof.
  split.
  - intros o p. cbn. repeat (destruct o as [|o]; try discriminate; cbn); intros [= <-]; auto with arith.
  - intros o p. cbn. repeat (destruct o as [|o]; try discriminate; cbn); intros [= <-]; cbn; repeat split; discriminate.
  - split; reflexivity.
  - split; reflexivity.
  - reflexivity.
Qed.

Definition conc (t : sty) := mkSchema 0 t [].
(* f : x ** y ** (x * y)   with  x << [A; C],  y <= A *)
Definition sige := mkSchema 2
  (SOp Function [SVar 0; SOp Function [SVar 1; SOp Product [SVar 0; SVar 1]]])
  [SCElim (SVar 0) [SOp 5 []; SOp 7 []]; SCSub (SVar 1) (SOp 5 []) false].

Example good5 : FL.good exH 5. Proof. repeat split; discriminate. Qed.
Example good7 : FL.good exH 7. Proof. repeat split; discriminate. Qed.

Example sige_ok : forall n, cmdE exH n (CInst sige).
Proof.
  intros n. constructor.
  - cbn [s_n s_body sige]. repeat (constructor; cbn; auto with arith).
  - cbn [s_n s_constrs sige]. constructor; [|constructor; [|constructor]].
    + right. cbn. split; [auto with arith|]. exists [5; 7]. split; [|reflexivity].
      constructor; [exact good5|constructor; [exact good7|constructor]].
    + left. cbn. split; [auto with arith|reflexivity].
Qed.

Example conc_ok : forall n b, variance exH b = [] -> cmdE exH n (CInst (conc (SOp b []))).
Proof.
  intros n b Vb. constructor; [|constructor]. cbn. constructor; [rewrite Vb; reflexivity|constructor].
Qed.

(* (a) f applied to B then B, result fixed: the filter leaves [A] (B <= A, not B <= C),
   the constraint is fulfilled, below(x, A) ran, fix resolves x := B *)
Definition ex_prog := [CInst sige; CInst (conc (SOp 6 [])); CApply 0 1 false; CApply 2 1 true].
Definition ex_run := Eval vm_compute in run_cmds exH 100 ex_prog 0 [] (empty_store []).
Definition ex_vals := snd (fst ex_run).
Definition ex_s := snd ex_run.

Example ex_progE : progE exH 0 ex_prog.
Proof.
  cbn [progE ex_prog]. repeat split; try (constructor; auto with arith; fail).
  - apply sige_ok.
  - apply conc_ok. reflexivity.
Qed.

Example ex_accepted : run_cmds exH 100 ex_prog 0 [] (empty_store []) = (None, ex_vals, ex_s).
Proof. vm_compute. reflexivity. Qed.

Example ex_decls : decls ex_prog = [[5; 7]; [5]].
Proof. reflexivity. Qed.

Example ex_resolved :
  map (fun k => (k_elim k, follow ex_s (k_ref k), k_alts k, k_done k)) (constrs ex_s) =
  [(true, O 6 [], [O 5 []], true); (false, O 6 [], [O 5 []], true)].
Proof. vm_compute. reflexivity. Qed.

(* the theorem applied: the resolved argument B fits the declared alternative A *)
Example ex_holds : exists a, In a [5; 7] /\ Sub exH (TOp 6 []) (TOp a []).
Proof.
  destruct (C03_elim_sound exH exH_wf 100 [] ex_prog ex_vals ex_s ex_progE ex_accepted) as (_ & C & _).
  destruct (C 0) with (o := 6) (args := @nil tyv) as (a & Ia & Sa); [cbn; auto with arith|reflexivity|reflexivity|].
  exists a. split; [exact Ia|exact Sa].
Qed.

(* (b) after the first application only (x has lower bound B, upper bound A, unresolved):
   fulfilled with one alternative, the bound is what makes (iii) true later *)
Definition ex_prog_b := [CInst sige; CInst (conc (SOp 6 [])); CApply 0 1 false].
Definition ex_s_b := Eval vm_compute in snd (run_cmds exH 100 ex_prog_b 0 [] (empty_store [])).
Example ex_b_state :
  fst (fst (run_cmds exH 100 ex_prog_b 0 [] (empty_store []))) = None /\
  map (fun k => (k_elim k, follow ex_s_b (k_ref k), k_alts k, k_done k)) (constrs ex_s_b) =
    [(true, V 0, [O 5 []], true); (false, V 1, [O 5 []], false)] /\
  map (fun c => (c_bound c, c_lower c, c_upper c)) (vars ex_s_b) =
    [(None, Some 6, Some 5); (None, None, None)].
Proof. vm_compute. repeat split. Qed.

(* (c) instantiation alone: both alternatives stay, the constraint is pending and
   ATTACHED to the constraint set of x *)
Definition ex_prog_c := [CInst sige].
Definition ex_s_c := Eval vm_compute in snd (run_cmds exH 100 ex_prog_c 0 [] (empty_store [])).
Example ex_c_pending :
  fst (fst (run_cmds exH 100 ex_prog_c 0 [] (empty_store []))) = None /\
  map (fun k => (k_elim k, follow ex_s_c (k_ref k), k_alts k, k_done k)) (constrs ex_s_c) =
    [(true, V 0, [O 5 []; O 7 []], false); (false, V 1, [O 5 []], false)] /\
  csets ex_s_c = [[0]; [1]].
Proof. vm_compute. repeat split. Qed.

(* (d) the filter matters: passing F(B) (no alternative fits) is rejected at the
   application (command 2) *)
Definition ex_prog_d := [CInst sige; CInst (conc (SOp 8 [SOp 6 []])); CApply 0 1 false].
Example ex_d_rejected :
  fst (fst (run_cmds exH 100 ex_prog_d 0 [] (empty_store []))) <> None.
Proof. vm_compute. discriminate. Qed.

(* (e) two elimination constraints on one variable: x << [A; C] and x << [A]; the second
   is fulfilled at creation (below(x, A)), its re-check round fulfils the first; the
   instance's fix resolves the contravariant x to its upper bound A *)
Definition sig2 := mkSchema 1 (SOp Function [SVar 0; SVar 0])
  [SCElim (SVar 0) [SOp 5 []; SOp 7 []]; SCElim (SVar 0) [SOp 5 []]].
Definition ex_prog_e := [CInst sig2; CInst (conc (SOp 6 [])); CApply 0 1 true].
Definition ex_s_e := Eval vm_compute in snd (run_cmds exH 100 ex_prog_e 0 [] (empty_store [])).
Example ex_e_state :
  fst (fst (run_cmds exH 100 ex_prog_e 0 [] (empty_store []))) = None /\
  map (fun k => (k_elim k, follow ex_s_e (k_ref k), k_alts k, k_done k)) (constrs ex_s_e) =
    [(true, O 5 [], [O 5 []], true); (true, O 5 [], [O 5 []], true)].
Proof. vm_compute. repeat split. Qed.
