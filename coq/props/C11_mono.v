(* C11, monotonicity under dropping an INNER step (extension of C11_mono in
   props/C11.v, which covers generalising types and dropping leaf steps or
   whole branches).  Property theorems only, each closed by [exact].

   Result: on graphs whose depends relation is transitive - which is what C09
   proves of every graph add_from produces ([Closure.closed]) - replacing the
   links  a -> s -> b  by  a -> b  never loses a match, for EVERY kind of
   dropped step s (typed, bare operator, both, or no information) and every
   kind of a and b.  No side condition comes from the :depends / :depends?
   (same-step) rule: C11_link_compose shows that the rule composes.  Without
   transitivity the statement is false (C11_mono_inner_needs_transitivity). *)
From Coq Require Import List Arith Bool Lia.
Import ListNotations.
From TF Require Import Base.Hier Base.Ty Sub.Match Sub.SubSpec Sub.SubProofs.
From TF Require Import Query.Bgp Query.Gen Query.GenProofs Query.Spec Query.Assign
  Query.TaskSpec Query.Check Query.MonoInner.
From TF Require Graph.Closure.

(* The :depends / :depends? rule of query.py:377-383 as a function of which
   of operator / type lists of the two steps are empty ([true] = empty):
   [link_path sk c v] is [link_kind] of the four flags.  Links compose over
   any middle step: if x -a-> y holds under the rule for (a, s) and y -> z
   under the rule for (s, b), then x -> z holds under the rule for (a, b). *)
Theorem C11_link_compose : forall G, dep_transitive G ->
  forall oa ta os ts ob tb x y z,
  holds G x (link_kind oa ta os ts) y -> holds G y (link_kind os ts ob tb) z ->
  holds G x (link_kind oa ta ob tb) z.
Proof. exact link_compose. Qed.
Print Assumptions C11_link_compose.

(* On skeletons (with or without unfold_tree, any renaming h of variables):
   sk' keeps the operators of sk's steps, generalises or drops types, and
   each of its links is a link of sk or a two-link path of sk through s. *)
Theorem C11_mono_inner : forall H canon sw sk sk' h s G, wf_hier H -> graph_ok H canon G ->
  dep_transitive G ->
  sk_dag sk -> sk_dag sk' -> sk_canon H canon sk -> sk_canon H canon sk' ->
  by_chronology sw = true -> task_le_inner H sk' sk h s ->
  matches G (gen H sw sk) -> matches G (gen H sw sk').
Proof. exact mono_inner. Qed.
Print Assumptions C11_mono_inner.

(* On task graphs, with the concrete operation: [drop_node T s] lets every
   step that was preceded by s be preceded by s's predecessors instead.  The
   same assignment of step nodes still works ... *)
Theorem C11_drop_node_assignable : forall sw G T s, dep_transitive G ->
  task_assignable sw G T -> task_assignable sw G (drop_node T s).
Proof. exact drop_node_assignable. Qed.
Print Assumptions C11_drop_node_assignable.

(* ... hence the query generated from the smaller task returns every workflow
   the query generated from the task returned (tree- and DAG-shaped tasks). *)
Theorem C11_mono_inner_task : forall H canon G fuel fuel' T s sw sk sk',
  wf_hier H -> graph_ok H canon G -> dep_transitive G ->
  skeleton fuel T false = Ok sk -> skeleton fuel' (drop_node T s) false = Ok sk' ->
  sk_canon H canon sk -> sk_canon H canon sk' -> by_chronology sw = true ->
  matches G (gen H sw sk) -> matches G (gen H sw sk').
Proof. exact drop_node_matches. Qed.
Print Assumptions C11_mono_inner_task.

(* The hypothesis is C09's invariant: a graph whose from / depends triples
   are the edge sets of a [closed] graph state has a transitive depends. *)
Theorem C11_closed_dep_transitive : forall g rest,
  Closure.closed g -> (forall x y, ~ In (x, PDepends, y) rest) ->
  dep_transitive (edges_graph g rest).
Proof. exact closed_dep_transitive. Qed.
Print Assumptions C11_closed_dep_transitive.

(* ------------------------------------------------------------------ *)
(* Non-vacuity, and necessity of transitivity.  Unrelated A(5), B(6), C(7); operators
   a2b = 0, b2c = 1; workflow  b2c (a2b (- : A)):  nodes 0 <- 1 <- 2. *)
Definition mH : hier := mk_hier [] [].
Example mH_wf : wf_hier mH.
Proof.
  split.
  - intros o p. cbn. repeat (destruct o as [|o]; try discriminate; cbn); intros [= <-]; auto with arith.
  - intros o p. cbn. repeat (destruct o as [|o]; try discriminate; cbn); intros [= <-]; cbn; repeat split; discriminate.
  - split; reflexivity.
  - split; reflexivity.
  - reflexivity.
Qed.
Definition mTop := TOp 0 []. Definition mA := TOp 5 []. Definition mB := TOp 6 []. Definition mC := TOp 7 [].
Definition mCanon : list ty := [mTop; mA; mB; mC].
Definition mRest : graph :=
  [ (CWf, PRdfType, CTransformation); (CWf, POutput, CNode 0);
    (CNode 0, PVia, COp 1); (CNode 0, PSubtypeOf, CTy mC); (CNode 0, PSubtypeOf, CTy mTop);
    (CNode 1, PVia, COp 0); (CNode 1, PSubtypeOf, CTy mB); (CNode 1, PSubtypeOf, CTy mTop);
    (CNode 2, PSubtypeOf, CTy mA); (CNode 2, PSubtypeOf, CTy mTop);
    (CWf, PContainsOperation, COp 0); (CWf, PContainsOperation, COp 1);
    (CWf, PContainsType, CTy mC); (CWf, PContainsType, CTy mB); (CWf, PContainsType, CTy mA);
    (CWf, PContainsType, CTy mTop) ].
(* the graph state after add_from(0, 1); add_from(1, 2)  (C09's model) *)
Definition mState : Closure.graph := Closure.run [(false, (0, 1)); (false, (1, 2))].
Definition mG : graph := edges_graph mState mRest.

Example mRest_no_depends : forall x y, ~ In (x, PDepends, y) mRest.
Proof. intros x y HI. cbn in HI. repeat (destruct HI as [HI|HI]; [discriminate|]). destruct HI. Qed.

Example mG_transitive : dep_transitive mG.
Proof. apply closed_dep_transitive; [apply Closure.run_closed | exact mRest_no_depends]. Qed.

Example mG_ok : graph_ok mH (fun t => In t mCanon) mG.
Proof. apply graph_okb_spec; [exact mH_wf | vm_compute; reflexivity]. Qed.

(* the task  [C, b2c, [a2b, [A]]]  and the same without its inner step *)
Definition mT : task :=
  mkTask [(10, mkTnode [mC] [1] [11] false); (11, mkTnode [] [0] [12] false);
          (12, mkTnode [mA] [] [] false)] [10].

Example m_drop : exists sk sk',
  skeleton 8 mT false = Ok sk /\ skeleton 8 (drop_node mT 11) false = Ok sk' /\
  sk_n sk = 3 /\ sk_n sk' = 2 /\ sk_edges sk' = [(0, 1)] /\
  sk_canon mH (fun t => In t mCanon) sk /\ sk_canon mH (fun t => In t mCanon) sk' /\
  matcho mG (gen mH default_sw sk) = true /\ matcho mG (gen mH default_sw sk') = true.
Proof.
  eexists. eexists. split; [vm_compute; reflexivity|]. split; [vm_compute; reflexivity|].
  split; [reflexivity|]. split; [reflexivity|]. split; [reflexivity|].
  split; [apply sk_canonb_spec; vm_compute; reflexivity|].
  split; [apply sk_canonb_spec; vm_compute; reflexivity|].
  split; vm_compute; reflexivity.
Qed.

(* a dropped step of every kind between steps of every kind: the rule
   composes in all 64 combinations (instance of C11_link_compose on mG) *)
Example m_all_kinds : forall oa ta os ts ob tb x y z,
  holds mG x (link_kind oa ta os ts) y -> holds mG y (link_kind os ts ob tb) z ->
  holds mG x (link_kind oa ta ob tb) z.
Proof. exact (link_compose mG mG_transitive). Qed.

(* Transitivity is needed: on the graph state the PINNED add_from could leave
   (depends misses (0, 2), cf. C09_pinned_refuted) the task matches and the
   task without its inner step does not. *)
Definition mG_bad : graph := edges_graph (Closure.mkG [(0, 1); (1, 2)] [(0, 1); (1, 2)]) mRest.
Example C11_mono_inner_needs_transitivity :
  ~ dep_transitive mG_bad /\
  match skeleton 8 mT false, skeleton 8 (drop_node mT 11) false with
  | Ok sk, Ok sk' => matcho mG_bad (gen mH default_sw sk) = true /\
                     matcho mG_bad (gen mH default_sw sk') = false
  | _, _ => False
  end.
Proof.
  split.
  - intros TR. specialize (TR (CNode 0) (CNode 1) (CNode 2)).
    assert (HI : In (CNode 0, PDepends, CNode 2) mG_bad).
    { apply TR; vm_compute; tauto. }
    apply has_In in HI. vm_compute in HI. discriminate.
  - vm_compute. split; reflexivity.
Qed.
