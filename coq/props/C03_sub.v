(* C03 (pure subtype constraints)  Every accepted polymorphic application has a
   witnessing instantiation, and every resolved constraint holds - the
   UNCONDITIONAL statement for the engine model (Infer/Engine.v) on programs of
   CInst / CApply commands whose schemas carry READ-ONLY subtype constraints

        x <= A      x < A      (SCSub (SVar i) (SOp a []) strict; i a schematic
                                variable of the schema, a a base operator)

   Class [progS H 0 prog] (Infer/SoundSub.v) = [SchedIndep.pure_prog] restricted
   to CInst / CApply, schemas well-scoped and arity-correct ([styg], i < s_n) as
   TypeOperation.__init__ / TypeSchema enforce.  Proofs: Infer/SoundSub.v.

   C03_sub_sound, for every wf_hier H, fuel, schedule, accepted pure program:
     (i)+(ii) for EVERY grounding th with [sat H th s] every apply step (f, x, r)
              has den f = Function [a; b], Sub (den x) a, den r = b (or den f =
              Top = den r)                         - as C03_core_sound;
     (iii)    every constraint of the final store whose reference is resolved
              (follows to a concrete operation O o args) HOLDS:
              Sub (TOp o []) (TOp a []) for its target a, o <> a when strict,
              and args = [] unless a = Top;
     (iv)     a variable that carries a bound is never resolved to a compound
              type                                  - as C03_core_bounded.
   (i), (ii), (iv) are obtained by ERASURE ([C03_sub_erase]): a pure constraint
   is only ever re-checked, never written through, so the run agrees on the
   variable cells and on the values with the run of the constraint-free
   program, to which C03_core applies; [sat], [den], [follow] read only the
   variable cells.  (iii) is new: it needs that whenever a variable carrying a
   pending constraint gets bound, the constraint is in the set that bind's
   check_constraints round walks over.  That is the ATTACHMENT clause of the
   invariant [K] (C03_sub_constraints gives the whole invariant on the final
   store; C03_sub_ops / C03_sub_cc / C03_sub_rebind are the per-operation
   statements: one induction on fuel over unify/bind/above/below/fix_ty).

   Non-vacuity: C03_sub_satisfiable (a satisfying grounding exists) and the
   examples at the end (accepted with a resolved / an unresolved constraint,
   rejected when the constraint is violated at the moment the variable is
   resolved).

   Not covered (still missing for full C03): elimination constraints and
   subtype constraints whose target is not a base type or whose reference is
   not a bare variable - their fulfilment unifies (writes cells), so neither
   the erasure nor the read-only closed form of the re-check round applies;
   CUnify / CFix commands. *)
From Coq Require Import List Arith Bool.
Import ListNotations.
From TF Require Import Base.Hier Base.Ty Sub.SubSpec Infer.Store Infer.Engine Infer.Run
  Infer.Witness Infer.Check Infer.Inv Infer.Sound Infer.SchedIndep Infer.SoundSub.
From TF Require Infer.Lub.

(* ---- the main theorem ---- *)
Theorem C03_sub_sound : forall H, wf_hier H ->
  forall fuel sc prog vals s, progS H 0 prog ->
  run_cmds H fuel prog 0 [] (empty_store sc) = (None, vals, s) ->
  (* (i)+(ii) *)
  (forall th, sat H th s -> forall f x r, In (f, x, r) (steps_of prog 0) ->
     (exists a b, den th (val vals f) = TOp Function [a; b] /\
                  Sub H (den th (val vals x)) a /\ den th (val vals r) = b) \/
     (den th (val vals f) = TOp Top [] /\ den th (val vals r) = TOp Top [])) /\
  (* (iii) *)
  (forall c, c < length (constrs s) ->
     exists a, k_alts (constr_of s c) = [O a []] /\
       forall o args, follow s (k_ref (constr_of s c)) = O o args ->
         Sub H (TOp o []) (TOp a []) /\ (k_strict (constr_of s c) = true -> o <> a) /\
         (args = [] \/ a = Top)) /\
  (* (iv) *)
  (forall v t o args, c_bound (cell_of s v) = Some t ->
     (c_lower (cell_of s v) <> None \/ c_upper (cell_of s v) <> None) ->
     follow s t = O o args -> args = []).
Proof. exact sub_sound. Qed.
Print Assumptions C03_sub_sound.

(* (iii) read with a grounding: the denotation of the reference is a subtype of
   (and, when strict, different from) the target *)
Theorem C03_sub_constraints_sem : forall H, wf_hier H ->
  forall fuel sc prog vals s, progS H 0 prog ->
  run_cmds H fuel prog 0 [] (empty_store sc) = (None, vals, s) ->
  forall c, c < length (constrs s) ->
  exists a, k_alts (constr_of s c) = [O a []] /\
    forall o args, follow s (k_ref (constr_of s c)) = O o args ->
    forall th, sat H th s ->
      Sub H (den th (k_ref (constr_of s c))) (TOp a []) /\
      (k_strict (constr_of s c) = true -> den th (k_ref (constr_of s c)) <> TOp a []).
Proof. exact sub_constraints_sem. Qed.
Print Assumptions C03_sub_constraints_sem.

(* the whole constraint invariant on the final store: every constraint is a
   pure subtype constraint on a variable; resolved => holds; unresolved and not
   fulfilled => ATTACHED to the constraint set of the unbound variable its
   reference follows to (so the next bind of that variable re-checks it);
   unresolved and fulfilled => target Top, not strict (true of any resolution) *)
Theorem C03_sub_constraints : forall H, wf_hier H ->
  forall fuel sc prog vals s, progS H 0 prog ->
  run_cmds H fuel prog 0 [] (empty_store sc) = (None, vals, s) ->
  forall c, c < length (constrs s) ->
  let k := constr_of s c in
  k_elim k = false /\ (exists x, k_ref k = V x) /\
  exists a, k_alts k = [O a []] /\ variance H a = [] /\
    (forall o args, follow s (k_ref k) = O o args ->
       Sub H (TOp o []) (TOp a []) /\ (k_strict k = true -> o <> a) /\ (args = [] \/ a = Top)) /\
    (forall u, follow s (k_ref k) = V u ->
       if k_done k then a = Top /\ k_strict k = false
       else In c (cset_of s (c_cs (cell_of s u)))).
Proof. exact sub_constraints_hold. Qed.
Print Assumptions C03_sub_constraints.

(* ---- erasure: read-only constraints do not influence inference ---- *)
(* erase_cmd (CInst sc) = CInst (mkSchema (s_n sc) (s_body sc) []); other commands unchanged *)
Theorem C03_sub_erase : forall H fuel sc prog vals s, progS H 0 prog ->
  run_cmds H fuel prog 0 [] (empty_store sc) = (None, vals, s) ->
  exists s0, run_cmds H fuel (map erase_cmd prog) 0 [] (empty_store sc) = (None, vals, s0) /\
             vars s0 = vars s /\ progP H 0 (map erase_cmd prog).
Proof. exact sub_erase. Qed.
Print Assumptions C03_sub_erase.

(* ... at the level of one engine operation (any flags): if the operation
   succeeds from s, it succeeds with the same result from every store s0 that
   has the same variable cells and no constraints at all *)
Theorem C03_sub_erase_ops : forall H f,
  (forall sub skb skw a b s s0, vars s0 = vars s -> nocs s0 -> allpure H s ->
     length (csets s0) = length (csets s) ->
     forall u s', unify H f sub skb skw a b s = MOk u s' ->
     exists s0', unify H f sub skb skw a b s0 = MOk u s0' /\ vars s0' = vars s' /\ nocs s0' /\
                 allpure H s' /\ length (csets s0') = length (csets s')) /\
  (forall pl t s s0, vars s0 = vars s -> nocs s0 -> allpure H s ->
     length (csets s0) = length (csets s) ->
     forall r s', fix_ty H f pl t s = MOk r s' ->
     exists s0', fix_ty H f pl t s0 = MOk r s0' /\ vars s0' = vars s' /\ nocs s0' /\
                 allpure H s' /\ length (csets s0') = length (csets s')).
Proof.
  intros H f. split.
  - intros sub skb skw a b s s0 Ev N P L u s' E.
    exact (sim_unify H f sub skb skw a b s s0 (conj Ev (conj N (conj P L))) u s' E).
  - intros pl t s s0 Ev N P L r s' E.
    exact (sim_fix_ty H f pl t s s0 (conj Ev (conj N (conj P L))) r s' E).
Qed.
Print Assumptions C03_sub_erase_ops.

Theorem C03_sub_satisfiable : forall H, wf_hier H ->
  forall fuel sc prog vals s, progS H 0 prog ->
  run_cmds H fuel prog 0 [] (empty_store sc) = (None, vals, s) ->
  exists th, sat H th s /\
    forall v, c_bound (cell_of s v) = None ->
      th v = match c_lower (cell_of s v), c_upper (cell_of s v) with
             | Some l, _ => TOp l []
             | None, Some u => TOp u []
             | None, None => TOp Top []
             end.
Proof. exact sub_satisfiable. Qed.
Print Assumptions C03_sub_satisfiable.

(* ---- the constraint invariant, per operation ----
   [rsv s t r]   t resolves to r through the bindings of s (fuel-free follow)
   [hold H o a st] = (o = Bottom \/ a = Top \/ (basic H o = true /\ Lub.ole H o a)) /\ (st = true -> o <> a)
   [kst H s pend c k], the state of constraint c (object k):
       k_elim k = false /\ (exists x, k_ref k = V x) /\
       exists a, k_alts k = [O a []] /\ basic H a = true /\
       forall r, rsv s (k_ref k) r ->
         match r with
         | O o args => hold H o a (k_strict k) \/ (k_done k = false /\ In c pend)
         | V u => if k_done k then a = Top /\ k_strict k = false
                  else In c (cset_of s (c_cs (cell_of s u)))
         end
   [Kp H pend s] = every constraint c < length (constrs s) satisfies kst; [K H] = [Kp H []]
   [inv] = Infer/Inv.v's store invariant (acyclic, well-scoped), [ext] = write-once extension
   [ok true s m Q s] (Inv.v) = m from s ends in a store satisfying inv that extends s,
       never crashes, and on success Q holds *)
Theorem C03_sub_K_unfold : forall H pend s,
  Kp H pend s <->
  forall c, c < length (constrs s) ->
    let k := constr_of s c in
    k_elim k = false /\ (exists x, k_ref k = V x) /\
    exists a, k_alts k = [O a []] /\ basic H a = true /\
      forall r, rsv s (k_ref k) r ->
        match r with
        | O o args =>
            ((o = Bottom \/ a = Top \/ (basic H o = true /\ Lub.ole H o a)) /\
             (k_strict k = true -> o <> a)) \/ (k_done k = false /\ In c pend)
        | V u => if k_done k then a = Top /\ k_strict k = false
                 else In c (cset_of s (c_cs (cell_of s u)))
        end.
Proof. intros H pend s. reflexivity. Qed.
Print Assumptions C03_sub_K_unfold.

(* the resolution relation is what [follow] computes on stores satisfying the invariant *)
Theorem C03_sub_rsv_follow : forall s t, core s -> rsv s t (follow s t) /\ forall r, rsv s t r -> follow s t = r.
Proof. intros s t C. split; [apply follow_rsv; exact C|apply rsv_follow]. Qed.
Print Assumptions C03_sub_rsv_follow.

(* one re-check round: if every resolved constraint already holds or is pending
   in the set of v, a successful check_constraints on v re-establishes K *)
Theorem C03_sub_cc : forall H, wf_hier H -> forall n v s u s',
  invb true s -> Kp H (cset_of s (c_cs (cell_of s v))) s ->
  check_constraints H n v s = MOk u s' -> K H s'.
Proof. exact cc_K. Qed.
Print Assumptions C03_sub_cc.

(* binding the unbound variable v (new binding t, resolving to rt): K becomes
   Kp pend provided bind's set merging kept every unbound variable's set at
   least as large and moved the set of v to where the constraints of v are now
   looked for (the set of w when rt = V w; the pending list when rt is an operation) *)
Theorem C03_sub_rebind : forall H pend s s2 v t rt, invb true s -> K H s ->
  c_bound (cell_of s v) = None -> c_bound (cell_of s2 v) = Some t ->
  (forall y, y <> v -> c_bound (cell_of s2 y) = c_bound (cell_of s y)) ->
  rsv s2 t rt ->
  length (constrs s2) = length (constrs s) ->
  (forall c, c < length (constrs s) -> constr_of s2 c = constr_of s c) ->
  (forall u, u < length (vars s) -> u <> v -> c_bound (cell_of s u) = None ->
     incl (cset_of s (c_cs (cell_of s u))) (cset_of s2 (c_cs (cell_of s2 u)))) ->
  match rt with
  | V w => incl (cset_of s (c_cs (cell_of s v))) (cset_of s2 (c_cs (cell_of s2 w)))
  | O _ _ => incl (cset_of s (c_cs (cell_of s v))) pend
  end ->
  Kp H pend s2.
Proof. exact Kp_rebind. Qed.
Print Assumptions C03_sub_rebind.

(* unify (subtype mode) / bind / above / below / fix_ty preserve K: one induction on fuel *)
Theorem C03_sub_ops : forall H, wf_hier H -> forall f, specsK H f.
Proof. exact specsK_all. Qed.
Print Assumptions C03_sub_ops.

Theorem C03_sub_bind : forall H, wf_hier H -> forall f v t s,
  invb true s -> K H s ->
  c_bound (cell_of s v) = None -> nb s t -> scv true s v -> sct true s t -> noccb true s v t ->
  match bind H f v t s with
  | MOk _ s' => invb true s' /\ ext s s' /\ K H s'
  | MEr e s' => invb true s' /\ ext s s' /\ forall n, e <> ECrash n
  end.
Proof. exact bindK. Qed.
Print Assumptions C03_sub_bind.

Theorem C03_sub_unify : forall H, wf_hier H -> forall f a b s,
  invb true s -> K H s -> sct true s a -> sct true s b ->
  match unify H f true false false a b s with
  | MOk _ s' => invb true s' /\ ext s s' /\ K H s'
  | MEr e s' => invb true s' /\ ext s s' /\ forall n, e <> ECrash n
  end.
Proof. exact unifyK. Qed.
Print Assumptions C03_sub_unify.

(* a new pure constraint on a variable: attached and checked at creation *)
Theorem C03_sub_new_constraint : forall H, wf_hier H -> forall fuel k s u s',
  invb true s -> K H s ->
  k_elim k = false -> (exists x, k_ref k = V x) ->
  (exists a, k_alts k = [O a []] /\ basic H a = true) -> k_done k = false ->
  Forall (sct true s) (constr_terms k) ->
  new_constraint H fuel k s = MOk u s' -> K H s'.
Proof. exact new_constraint_K. Qed.
Print Assumptions C03_sub_new_constraint.

(* ---- the per-operation soundness statements of C03_core, on stores that carry
   pure constraints (check_constraints / fulfill now run, as read-only re-checks) ----
   [Jv H s]      = bindings well-scoped and arity-correct, bounds proper base operators
                   with lower <= upper (the cell part of Sound.J; constraint sets arbitrary)
   [allpure H s] = every constraint object is a subtype constraint against one base operator
   [le], [fr], [sat], [den], [tg], [cmpb], [lbo], [ubo], [StepSem]: as in props/C03_core.v *)
Theorem C03_sub_Jv_unfold : forall H s,
  Jv H s <-> (forall v t, c_bound (cell_of s v) = Some t -> tg H (length (vars s)) t) /\
             (forall v, bok H (cell_of s v)).
Proof. intros H s. reflexivity. Qed.

Theorem C03_sub_unify_sound : forall H, wf_hier H -> forall fuel a b s s',
  Jv H s -> allpure H s -> tg H (length (vars s)) a -> tg H (length (vars s)) b ->
  unify H fuel true false false a b s = MOk tt s' ->
  Jv H s' /\ allpure H s' /\ le H s s' /\ fr H s s' /\
  forall th, sat H th s' -> Sub H (den th a) (den th b).
Proof. exact unify_sound_sub. Qed.
Print Assumptions C03_sub_unify_sound.

Theorem C03_sub_bind_sound : forall H, wf_hier H -> forall fuel v t s s',
  Jv H s -> allpure H s -> v < length (vars s) -> tg H (length (vars s)) t ->
  (forall o args, t = O o args -> basic H o = true -> cmpb H (cell_of s v) o) ->
  bind H fuel v t s = MOk tt s' ->
  Jv H s' /\ allpure H s' /\ le H s s' /\ fr H s s' /\ forall th, sat H th s' -> th v = den th t.
Proof. exact bind_sound_sub. Qed.
Print Assumptions C03_sub_bind_sound.

Theorem C03_sub_above_sound : forall H, wf_hier H -> forall fuel v new s s',
  Jv H s -> allpure H s -> v < length (vars s) -> variance H new = [] -> new <> Bottom ->
  above H fuel v new s = MOk tt s' ->
  Jv H s' /\ allpure H s' /\ le H s s' /\ fr H s s' /\
  forall th, sat H th s' -> exists b, th v = TOp b [] /\ Lub.ole H new b.
Proof. exact above_sound_sub. Qed.
Print Assumptions C03_sub_above_sound.

Theorem C03_sub_below_sound : forall H, wf_hier H -> forall fuel v new s s',
  Jv H s -> allpure H s -> v < length (vars s) -> variance H new = [] -> new <> Top ->
  below H fuel v new s = MOk tt s' ->
  Jv H s' /\ allpure H s' /\ le H s s' /\ fr H s s' /\
  forall th, sat H th s' -> exists b, th v = TOp b [] /\ Lub.ole H b new.
Proof. exact below_sound_sub. Qed.
Print Assumptions C03_sub_below_sound.

Theorem C03_sub_fix_sound : forall H, wf_hier H -> forall fuel pl t s r s',
  Jv H s -> allpure H s -> tg H (length (vars s)) t -> fix_ty H fuel pl t s = MOk r s' ->
  tg H (length (vars s')) r /\ Jv H s' /\ allpure H s' /\ le H s s' /\ fr H s s' /\
  forall th, sat H th s' -> den th r = den th t.
Proof. exact fix_sound_sub. Qed.
Print Assumptions C03_sub_fix_sound.

Theorem C03_sub_apply_sound : forall H, wf_hier H -> forall fuel f x fixb s r s',
  Jv H s -> allpure H s -> tg H (length (vars s)) f -> tg H (length (vars s)) x ->
  apply H fuel f x fixb s = MOk r s' ->
  tg H (length (vars s')) r /\ Jv H s' /\ allpure H s' /\ le H s s' /\ fr H s s' /\
  forall th, sat H th s' -> StepSem H th f x r.
Proof. exact apply_sound_sub. Qed.
Print Assumptions C03_sub_apply_sound.

(* the hypotheses of the per-operation statements hold of every reachable store *)
Theorem C03_sub_final : forall H, wf_hier H ->
  forall fuel sc prog vals s, progS H 0 prog ->
  run_cmds H fuel prog 0 [] (empty_store sc) = (None, vals, s) ->
  invb true s /\ K H s /\ Jv H s /\ allpure H s /\ Forall (tg H (length (vars s))) vals.
Proof. exact sub_final. Qed.
Print Assumptions C03_sub_final.

(* ---------- non-vacuity ---------- *)
(* A = 5, B = 6 < A, F = 7 unary covariant *)
Definition exH := mk_hier [(6,5)] [(7,[true])].
Example exH_wf : wf_hier exH.
Proof.
  split.
  - intros o p. cbn. repeat (destruct o as [|o]; try discriminate; cbn); intros [= <-]; auto with arith.
  - intros o p. cbn. repeat (destruct o as [|o]; try discriminate; cbn); intros [= <-]; cbn; repeat split; discriminate.
  - split; reflexivity.
  - split; reflexivity.
  - reflexivity.
Qed.

Definition conc (t : sty) := mkSchema 0 t [].
(* f : x ** y ** (x * y)   with  x <= A, y < A *)
Definition sigc := mkSchema 2
  (SOp Function [SVar 0; SOp Function [SVar 1; SOp Product [SVar 0; SVar 1]]])
  [SCSub (SVar 0) (SOp 5 []) false; SCSub (SVar 1) (SOp 5 []) true].

(* (a) f applied to B and B, result fixed: both constraints get resolved (x := B, y := B) and hold *)
Definition ex_prog := [CInst sigc; CInst (conc (SOp 6 [])); CApply 0 1 false; CApply 2 1 true].
Definition ex_run := Eval vm_compute in run_cmds exH 100 ex_prog 0 [] (empty_store []).
Definition ex_vals := snd (fst ex_run).
Definition ex_s := snd ex_run.

Example ex_progS : progS exH 0 ex_prog.
Proof.
  cbn [progS ex_prog]. repeat split; try (constructor; auto with arith; fail).
  - constructor.
    + cbn [s_n s_body sigc]. repeat (constructor; cbn; auto with arith).
    + cbn [s_n s_constrs sigc]. repeat constructor; cbn; auto with arith.
  - constructor; [|constructor]. repeat (constructor; cbn; auto with arith).
Qed.

Example ex_accepted : run_cmds exH 100 ex_prog 0 [] (empty_store []) = (None, ex_vals, ex_s).
Proof. vm_compute. reflexivity. Qed.

Example ex_resolved :
  map (fun k => (follow ex_s (k_ref k), k_alts k, k_strict k, k_done k)) (constrs ex_s) =
  [(O 6 [], [O 5 []], false, true); (O 6 [], [O 5 []], true, true)].
Proof. vm_compute. reflexivity. Qed.

(* the theorem applied: B <= A and B <> A *)
Example ex_holds : Sub exH (TOp 6 []) (TOp 5 []) /\ 6 <> 5.
Proof.
  destruct (C03_sub_sound exH exH_wf 100 [] ex_prog ex_vals ex_s ex_progS ex_accepted) as (_ & C & _).
  destruct (C 1) as (a & Ea & Hc); [cbn; auto with arith|].
  cbn in Ea. injection Ea as <-.
  destruct (Hc 6 []) as (S1 & S2 & _); [reflexivity|]. split; [exact S1|apply S2; reflexivity].
Qed.

(* (b) result not fixed: x, y stay unresolved with lower bound B; both constraints are
   pending and attached to the sets of x and y *)
Definition ex_prog_b := [CInst sigc; CInst (conc (SOp 6 [])); CApply 0 1 false; CApply 2 1 false].
Definition ex_s_b := Eval vm_compute in snd (run_cmds exH 100 ex_prog_b 0 [] (empty_store [])).
Example ex_b_pending :
  fst (fst (run_cmds exH 100 ex_prog_b 0 [] (empty_store []))) = None /\
  map (fun k => (follow ex_s_b (k_ref k), k_done k)) (constrs ex_s_b) = [(V 0, false); (V 1, false)] /\
  map (fun c => (c_bound c, c_lower c, c_cs c)) (vars ex_s_b) = [(None, Some 6, 0); (None, Some 6, 1)] /\
  csets ex_s_b = [[0]; [1]].
Proof. vm_compute. repeat split. Qed.

(* (c) the re-check matters: passing A for y resolves y := A, which violates y < A -
   rejected at the moment fix resolves y (command 4) *)
Definition ex_prog_c := [CInst sigc; CInst (conc (SOp 6 [])); CApply 0 1 false;
                         CInst (conc (SOp 5 [])); CApply 2 3 true].
Example ex_c_rejected :
  fst (fst (run_cmds exH 100 ex_prog_c 0 [] (empty_store []))) = Some (EConstraintViolation, 4).
Proof. vm_compute. reflexivity. Qed.

(* and the same program without the constraints is accepted (erasure is one-directional) *)
Example ex_c_erased_accepted :
  fst (fst (run_cmds exH 100 (map erase_cmd ex_prog_c) 0 [] (empty_store []))) = None.
Proof. vm_compute. reflexivity. Qed.
